#!/bin/bash
# usage: tools/seeds.sh <tier> seed...   -- every claimed check with every given seed (no evidence written)
tier=$1; shift
cd "$(dirname "$0")/.."
worst=0
for sd in "$@"; do tools/sweep.sh $sd $tier | grep -E "^(VIOLATION|HARNESS|note|violation signature|C[0-9]+ (quick|thorough):|sweep)" | cut -c1-260; r=${PIPESTATUS[0]}; [ $r -gt $worst ] && worst=$r; done
echo "all seeds done, worst exit=$worst"
