#!/usr/bin/env python3
"""Debug helper: show one run (model, script, trace, stderr, verdict).  usage: showrun.py C22 <idx> [seed]"""
import sys, os, json, importlib
sys.path.insert(0, os.path.dirname(os.path.dirname(os.path.abspath(__file__))))
from sim import engine, build
from sim.prng import Rng, derive
pid, idx = sys.argv[1], int(sys.argv[2])
seed = int(sys.argv[3]) if len(sys.argv) > 3 else engine.DEFAULT_SEED
m = importlib.import_module("props.%s" % pid.lower())
wd = "/dev/shm/showrun.%d" % os.getpid(); os.makedirs(wd, exist_ok=True)
model = m.generate(Rng(derive(seed, m.ID, idx)), "quick", idx)
print(json.dumps(model)[:3000])
res = engine.execute_model(m, model, wd)
out = m.check(model, res)
concs = m.render(model)
if isinstance(concs, dict): concs = [concs]
for c, r in zip(concs, res):
    if r is None or callable(c): continue
    print("---- script"); print(c.get("script", "")[:6000])
    print("---- argv", c.get("argv")); 
    print("---- trace"); print(r.trace[:3000])
    print("---- stderr"); print(r.stderr[:3000].decode("utf-8", "replace"))
    print("---- status", r.status, "stdout", len(r.stdout))
for v in out["violations"]: print("VIOL", v["sig"], v["msg"][:500])
import shutil; shutil.rmtree(wd, ignore_errors=True)
