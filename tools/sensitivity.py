#!/usr/bin/env python3
"""Sensitivity proof: every seeded change (and the reversal of every fix: commit) must be reported
by the check of the property it breaks.  Writes seeded/REPORT.md.   usage: sensitivity.py [ids...]
(with ids: only those are re-run, the other rows of the existing report are kept)"""
import glob, json, os, re, subprocess, sys, time
VERIF = os.path.dirname(os.path.dirname(os.path.abspath(__file__)))
known = json.load(open(os.path.join(VERIF, "known_findings.json")))
cases = []
for f in known["findings"]:
    if f["status"] == "fixed":
        cases.append(("revert-" + f["commit"], "-R:" + f["commit"], f["property"], f["what"][:110]))
benign = []
for d in sorted(glob.glob(os.path.join(VERIF, "seeded", "*", "meta.json"))):
    m = json.load(open(d))
    if m["id"].startswith("benign"):
        benign.append((m["id"], os.path.join(os.path.dirname(d), "patch.diff"), m["what_it_changes"][:110]))
        continue
    cases.append((m["id"], os.path.join(os.path.dirname(d), "patch.diff"), m["property"], m["what_it_breaks"][:110]))
want = set(sys.argv[1:])
rows = []
for cid, patch, prop, what in cases:
    if want and cid not in want:
        continue
    runs = "300" if prop == "C23" else "2000"
    t0 = time.time()
    p = subprocess.run([sys.executable, os.path.join(VERIF, "tools", "mutant.py"), "--runs", runs, patch, prop], stdout=subprocess.PIPE, stderr=subprocess.STDOUT, text=True)
    m = re.search(r"\[%s\] exit=(\d+)" % prop, p.stdout)
    sigs = re.findall(r"violation signature (\S+)", p.stdout)
    ex = int(m.group(1)) if m else -1
    rows.append((cid, prop, ex, sigs[:3], what))
    print("%-16s %s exit=%d %s (%.0fs)" % (cid, prop, ex, ",".join(sigs[:2]), time.time() - t0), flush=True)
brows = []
for cid, patch, what in benign:
    if want and cid not in want:
        continue
    worst = 0
    for prop, runs in (("C19", "1500"), ("C20", "1500"), ("C21", "1500"), ("C22", "1500"), ("C23", "150")):
        p = subprocess.run([sys.executable, os.path.join(VERIF, "tools", "mutant.py"), "--runs", runs, patch, prop], stdout=subprocess.PIPE, stderr=subprocess.STDOUT, text=True)
        m = re.search(r"\[%s\] exit=(\d+)" % prop, p.stdout)
        worst = max(worst, int(m.group(1)) if m else 9)
    brows.append((cid, worst, what))
    print("%-16s all five checks: worst exit=%d (expected 0)" % (cid, worst), flush=True)
if want:
    # partial run: keep the rows of the changes that were not re-run from the existing report
    try:
        prev = open(os.path.join(VERIF, "seeded", "REPORT.md")).read().split("\n## Property-preserving")
    except OSError:
        prev = ["", ""]
    done = {r[0] for r in rows}
    old_rows = []
    for line in prev[0].splitlines():
        c = [x.strip() for x in line.strip().strip("|").split(" | ")]
        if len(c) >= 5 and re.match(r"(revert-|c\d\d)", c[0]) and c[0] not in done and c[2].lstrip("-").isdigit():
            old_rows.append((c[0], c[1], int(c[2]), c[3].split("<br>") if c[3] else [], " | ".join(c[4:])))
    order = {cid: i for i, (cid, _, _, _) in enumerate(cases)}
    rows = sorted(rows + old_rows, key=lambda r: order.get(r[0], 10**6))
    bdone = {b[0] for b in brows}
    for line in (prev[1] if len(prev) > 1 else "").splitlines():
        c = [x.strip() for x in line.strip().strip("|").split(" | ")]
        if len(c) >= 3 and c[0].startswith("benign") and c[0] not in bdone and c[1].isdigit():
            brows.append((c[0], int(c[1]), " | ".join(c[2:])))
    brows.sort()
with open(os.path.join(VERIF, "seeded", "REPORT.md"), "w") as f:
    f.write("# Sensitivity report (written by tools/sensitivity.py)\n\nEach change is applied to a scratch worktree of /repo; the quick-tier generator of the property's check is run\n(2000 runs, C23: 300 histories) against it. exit 1 = caught.\n\n| change | property | check exit | first signatures | what it breaks |\n|---|---|---|---|---|\n")
    for cid, prop, ex, sigs, what in rows:
        f.write("| %s | %s | %d | %s | %s |\n" % (cid, prop, ex, "<br>".join(sigs), what.replace("|", "/")))
with open(os.path.join(VERIF, "seeded", "REPORT.md"), "a") as f:
    f.write("\n## Property-preserving refactors (no check may raise an alarm)\n\n| change | worst exit over C19..C23 | what it changes |\n|---|---|---|\n")
    for cid, worst, what in brows:
        f.write("| %s | %d | %s |\n" % (cid, worst, what.replace("|", "/")))
missed = [r[0] for r in rows if r[2] != 1] + [b[0] + "(alarm)" for b in brows if b[1] != 0]
print("caught %d of %d; missed: %s" % (len(rows) - len(missed), len(rows), missed))
sys.exit(1 if missed else 0)
