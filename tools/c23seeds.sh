#!/bin/bash
cd "$(dirname "$0")/.." 2>/dev/null
for sd in 101 102 103 104 105 106 107 108; do ./check C23 --runs 550 --seed $sd --no-evidence 2>&1 | grep -E "^(C23|HARNESS|note|violation|VIOLATION)" | cut -c1-300; done
