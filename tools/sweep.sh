#!/bin/bash
# usage: tools/sweep.sh <seed> [tier]   -- run every claimed check once with the given seed (no evidence written)
seed=${1:-7}; tier=${2:-thorough}
cd "$(dirname "$0")/.."
rc=0
for p in C21 C22 C19 C20 C23; do
  ./check $p --tier $tier --seed $seed --no-evidence 2>&1 | grep -E "^(seed=|VIOLATION|KNOWN-FINDING|HARNESS|violation signature|C[0-9]+ (quick|thorough):|probes at zero)" | cut -c1-400
  r=${PIPESTATUS[0]}; [ $r -gt $rc ] && rc=$r
done
echo "sweep seed=$seed tier=$tier worst-exit=$rc"
exit $rc
