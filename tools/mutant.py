#!/usr/bin/env python3
"""Run checks against a modified copy of /repo without touching /repo.

usage: mutant.py [--tests] [--runs N] [--keep] <patch.diff | -R:<commit>> <C19|...> [more properties]

Creates a scratch git worktree of /repo under /tmp, applies the patch (or reverts a commit with
-R:<sha>), builds it into its own target directory (seeded from /verif/.build/target so the build
is incremental), runs the named checks against it with --no-evidence and replays going to the
scratch directory, prints each check's verdict and removes everything again.
"""
import os, shutil, subprocess, sys, tempfile, time

VERIF = os.path.dirname(os.path.dirname(os.path.abspath(__file__)))
args = sys.argv[1:]
tests = "--tests" in args
keep = "--keep" in args
demo = None
if "--demo" in args:
    i = args.index("--demo"); demo = os.path.abspath(args[i + 1]); del args[i:i + 2]
runs = None
if "--runs" in args:
    i = args.index("--runs"); runs = args[i + 1]; del args[i:i + 2]
args = [a for a in args if a not in ("--tests", "--keep")]
patch, props = args[0], args[1:]
wt = tempfile.mkdtemp(prefix="p2mut.", dir="/tmp")
os.rmdir(wt)
rc = 0
try:
    subprocess.check_call(["git", "-C", "/repo", "worktree", "add", "--detach", "-q", wt, "HEAD"])
    if patch.startswith("-R:"):
        subprocess.check_call(["git", "-C", wt, "revert", "--no-commit", patch[3:]], stdout=subprocess.DEVNULL)
    else:
        subprocess.check_call(["git", "-C", wt, "apply", os.path.abspath(patch)])
    bdir = wt + ".build"
    os.makedirs(bdir)
    src = os.path.join(VERIF, ".build", "target")
    if os.path.isdir(src):
        subprocess.check_call(["cp", "-r", src, os.path.join(bdir, "target")])
    env = dict(os.environ, P2SH_REPO=wt, P2SIM_BUILD=bdir, P2SIM_REPLAYS=os.path.join(bdir, "replays"), P2SIM_EVIDENCE=os.path.join(bdir, "evidence"), CARGO_NET_OFFLINE="true")
    if tests:
        t0 = time.time()
        p = subprocess.run(["cargo", "test", "--offline", "--quiet"], cwd=wt, env=dict(env, CARGO_TARGET_DIR=os.path.join(bdir, "ttarget")), stdout=subprocess.PIPE, stderr=subprocess.STDOUT, text=True)
        res = [l for l in p.stdout.splitlines() if l.startswith("test result")]
        print("[existing tests] rc=%d %s (%.0fs)" % (p.returncode, res[:1], time.time() - t0))
    if demo:
        # the demonstration must pass on the unmodified build and fail on the modified one
        subprocess.check_call([sys.executable, os.path.join(VERIF, "check"), "setup"], cwd=VERIF, stdout=subprocess.DEVNULL)
        subprocess.check_call([sys.executable, os.path.join(VERIF, "check"), "setup"], cwd=VERIF, env=env, stdout=subprocess.DEVNULL)
        orig = os.path.join(VERIF, ".build", "target", "release", "p2sh")
        mut = os.path.join(bdir, "target", "release", "p2sh")
        for label, b in (("unmodified", orig), ("modified", mut)):
            p = subprocess.run(["bash", os.path.join(demo, "demo.sh"), b], cwd=demo, stdout=subprocess.PIPE, stderr=subprocess.STDOUT, text=True, timeout=300)
            print("[demo on %s build] exit=%d" % (label, p.returncode))
    for pid in props:
        cmd = [os.path.join(VERIF, "check"), pid, "--no-evidence"] + (["--runs", runs] if runs else [])
        t0 = time.time()
        p = subprocess.run(cmd, cwd=VERIF, env=env, stdout=subprocess.PIPE, stderr=subprocess.STDOUT, text=True)
        lines = p.stdout.splitlines()
        sigs = [l[:260] for l in lines if l.startswith("violation signature") or l.startswith("KNOWN-FINDING") or l.startswith("HARNESS") or l.startswith("(")]
        print("[%s] exit=%d (%.0fs) %s" % (pid, p.returncode, time.time() - t0, lines[-1][:200] if lines else ""))
        for s in sigs:
            print("     " + s)
        rc = max(rc, p.returncode)
        if keep:
            print("     replays kept in", os.path.join(bdir, "replays"))
finally:
    if not keep:
        subprocess.call(["git", "-C", "/repo", "worktree", "remove", "--force", wt], stdout=subprocess.DEVNULL, stderr=subprocess.DEVNULL)
        shutil.rmtree(wt, ignore_errors=True)
        shutil.rmtree(wt + ".build", ignore_errors=True)
        subprocess.call(["git", "-C", "/repo", "worktree", "prune"])
sys.exit(rc)
