#!/usr/bin/env python3
"""Regenerate /verif/MANIFEST.json (kept in one place so it is always valid and current)."""
import json
import os
import re
import sys

VERIF = os.path.dirname(os.path.dirname(os.path.abspath(__file__)))

NA_REASONS = {}
design = open(os.path.join(VERIF, "DESIGN.md")).read()
for m in re.finditer(r"^\| (C\d\d) \| (.*) \|$", design, re.M):
    NA_REASONS[m.group(1)] = m.group(2)

CLAIMED = {
    "C19": {
        "text": "Seeded search over (pcap file x read-call history x read(2) chunk schedule x truncation/corruption point), each run one real p2sh process under the simulated OS; every returned packet (timestamps, lengths, bytes) is compared with a record-list/cursor model, written files are parsed byte for byte and re-read by a second process. Sampling, not exhaustive: right level because the space (contents x offsets x histories) is unbounded and the failure modes are alignment-dependent.",
        "note": "Trusted: the Python pcap model and parser, the shim's chunking (only pipe-like descriptors and stdin are shortened), tmpfs. Bounds: <=50 records (3-6% of the runs: 400-4000 tiny records), <=70 kB per record, <=30 calls per handle; a systematic block cuts one small file at every byte offset.",
        "ref": "DESIGN.md section 3 (C19)",
    },
    "C20": {
        "text": "Seeded search over (pcap stream x generated filter program x stdin chunk schedule x cut point x -s) with an exact reference evaluator for the generated filter grammar predicting stderr text and stdout bytes; one real p2sh process per run.",
        "note": "Trusted: the reference evaluator (small grammar over NP/PL/WL/TSS/TSU, globals, filter locals, header assignments), the shim. Bounds: <=40 packets (4% of the runs: 500-5000 tiny packets), <=5 filters + end, <=2 helper functions, expression depth <=3.",
        "ref": "DESIGN.md section 3 (C20)",
    },
    "C21": {
        "text": "Seeded search over (contents x call sequences x read(2) chunk schedules x BufReader phase) for reads and (modes x existing/missing x write sizes around the BufWriter capacity x way of ending incl. SIGKILL at a chosen system call) for writes; cursor / path->bytes reference models checked operation by operation and on the files left behind; several append-mode handles on one file must produce the flushed chunks in flush order.",
        "note": "Trusted: the reference models, the shim, tmpfs semantics. Regular-file reads are never shortened. Unflushed data at exit(n)/kill is not required to be on disk. Bounds: <=3 handles, <=12 ops per handle, contents <=70 kB.",
        "ref": "DESIGN.md section 3 (C21)",
    },
    "C22": {
        "text": "Every listed builtin x every applicable failing target (real ENOENT/EISDIR/EEXIST/ENOTDIR/ENAMETOOLONG/ELOOP, /dev/full, /proc/self/mem, garbage pcap) and injected errno (EIO, ENOSPC incl. after a partial write, EPIPE+SIGPIPE, EACCES, EMFILE, EINTR, EAGAIN, sources that stay broken, and a range of rarer errno values) x call position is covered by construction in a systematic block, followed by seeded search over longer fault sequences; oracle: error object for the faulted operation, exact fault-free result for every other operation, program reaches DONE with exit 0, no panic, no runtime error.",
        "note": "Trusted: attribution of faults to operations via the CLOCK delimiter, the shim. EINTR and plain short writes are legal-but-unobserved for p2sh (no signal handlers) and only used with a permissive result. Errors swallowed by std's flush-on-drop are outside the statement.",
        "ref": "DESIGN.md section 3 (C22)",
    },
    "C23": {
        "text": "Seeded search over REPL histories with injected failing lines (parse errors, compile errors incl. after definitions and inside function bodies, runtime errors), driving the real REPL through a kernel pty; refinement oracle against the same binary running the accepted history non-interactively (-c mode for accepted lines so that the echo of the last value is compared exactly, script mode for failing lines); probe lines printing every live binding after every rejected line.",
        "note": "Trusted: the pty driver's prompt detection and ANSI stripping, script mode as the reference semantics (per the property's own definition). Bounds: 1-12 lines, <=3 statements per line.",
        "ref": "DESIGN.md section 3 (C23)",
    },
}

READY = [x for x in sys.argv[1:]] or ["C21"]

checks = []
for pid in sorted(READY):
    c = CLAIMED[pid]
    checks.append({
        "property_id": pid,
        "quick_cmd": "./check %s --tier quick" % pid,
        "thorough_cmd": "./check %s --tier thorough" % pid,
        "evidence_file": "/verif/evidence/%s.json" % pid,
        "replay_cmd_template": "./check replay {path}",
        "engine": "simos",
        "level_claimed": {"category": "exploration", "text": c["text"], "design_ref": c["ref"]},
        "level_note": c["note"],
        "technique": "deterministic simulation with fault injection: real binary under a seeded simulated-OS shim (LD_PRELOAD), reference-model oracle over the recorded history, shrinking + exact replay",
    })

na = []
props = [json.loads(l)["id"] for l in open(os.path.join(VERIF, "properties.jsonl"))]
for pid in props:
    if pid in READY:
        continue
    if pid in CLAIMED:
        na.append({"property_id": pid, "reason": "simulation applies (see DESIGN.md section 3) but the check is still under construction in this round; not claimed until it runs clean"})
    else:
        na.append({"property_id": pid, "reason": NA_REASONS.get(pid, "pure function of its input: no schedule, clock, fault or crash point for a simulator to control")})

man = {
    "version": 1,
    "setup_cmd": "./check setup",
    "hooks": {
        "guard": "p2sh_verif",
        "enable": "no source hooks are needed: checks build /repo's working tree as a plain release build (cargo build --release --offline into /verif/.build/target) and interpose libc with LD_PRELOAD=/verif/.build/simos.so; the cfg name p2sh_verif is reserved and unused",
        "baseline_off_cmd": "cd /repo && cargo test --workspace --no-fail-fast --offline",
        "source_commits": [],
        "add_only": True,
    },
    "engines": [
        {"name": "simos", "path": "/verif/sim", "serves_properties": sorted(READY),
         "kind_free_text": "simulated operating-system personality at the libc boundary (sim/simos.c, LD_PRELOAD) + seeded Python driver (sim/*.py) with per-property generators, reference models and oracles (props/*.py)"},
    ],
    "checks": checks,
    "notes": "Deterministic simulation with fault injection. One seed = one plan = one exactly repeatable process execution. exit 2 = harness error (never a VIOLATION). Fix commits in /repo are listed in known_findings.json as fixed entries.",
    "not_applicable": na,
}
json.dump(man, open(os.path.join(VERIF, "MANIFEST.json"), "w"), indent=1)
print("MANIFEST.json written: claimed %s, not applicable %d" % (sorted(READY), len(na)))
