"""C20 -- filter mode emits exactly the selected packets with correct per-packet state.

Simulated dimensions: stdin chunk schedules at every granularity (the `tcpdump -w - | p2sh`
case, S1) and the byte offset at which the upstream producer died (stream cut).  Oracle: an
exact reference evaluator for the generated filter grammar predicting stderr text and stdout
bytes (pcap stream without -s, program prints only with -s).
"""
import json

from sim import content, pcapfmt, script
from sim.prng import Rng

ID = "C20"
LEVEL = "exploration"
BUDGET = {
    "quick": {"runs": 4500, "time_cap": 150, "determinism_sample": 40, "shrink_runs": 300},
    "thorough": {"runs": 80000, "time_cap": 1500, "determinism_sample": 300, "shrink_runs": 600},
}
BOUNDS = "0-40 packets (caplen 0..9000, rarely up to 70000; 4 % of the runs: 500-5000 tiny packets), 1-5 filters + optional end filter, expression depth <=3, 0-3 globals, <=3 statements per action, one nested if"
RULE = ("each run = one generated pcap stream on stdin (both magics; default or varied global header) x one generated "
        "filter program (patterns over NP/PL/WL/TSS/TSU, ($0).sec/usec/caplen/wirelen, globals and constants; actions that "
        "update globals and filter locals, print, assign ($0).sec/usec/wirelen, nested if; action-less filters; optional end) "
        "x a stdin chunk schedule x an optional cut of the stream at a byte offset x with/without -s x script file or -c; "
        "same case iff (program shape, flags, packet count, cut class, chunk-boundary classes, per-packet selection pattern) "
        "agree; non-trivial iff at least one packet was processed and (a read(2) was shortened or the stream was cut or a "
        "packet was modified before being written)")
ASSUMPTIONS = [
    "generated patterns are boolean-typed and generated programs raise no runtime error (a non-boolean action-less pattern is a runtime error by design)",
    "PL/WL/TSS/TSU are the values captured when the packet was read and do not follow later assignments to ($0).*",
    "a stream that is cut before its 24-byte global header is not a pcap stream and is not generated; a header with zero packets is",
    "stdout failures are not part of the statement and are not injected",
    "payloads are never parsed as frames here (that is C15/C16)",
    "search is seeded sampling, not exhaustive",
]
PROBES = [
    "probe.zero_packets", "probe.cut_in_record_header", "probe.cut_in_record_data", "probe.cut_on_boundary",
    "probe.chunk_in_record_header", "probe.chunk_in_global_header", "probe.modified_then_written", "probe.written_twice",
    "probe.no_packet_selected", "probe.end_filter", "probe.skip_pcap", "probe.nondefault_header", "probe.local_used",
    "probe.command_mode", "probe.packet_gt_8192", "probe.end_only_program", "probe.nested_field_modified_then_written",
    "probe.late_nonfilter_statement", "probe.global_function_called", "probe.long_stream", "probe.empty_action_block",
    "probe.flag_after_script_argument", "probe.exit_in_action", "probe.end_filter_not_last", "probe.side_effect_in_pattern",
]

M = 1000003
FIELDS = ["sec", "usec", "caplen", "wirelen"]
VARS = ["NP", "PL", "WL", "TSS", "TSU"]


# ---------------------------------------------------------------------------
# generated filter language: AST (JSON-able), source rendering, reference evaluation

PKTLESS = [False]
NOVARS = [False]   # statements that run before the stream: no packet state, no NP
NFUNCS = [0]       # number of global helper functions available to expressions
TICK = [False]     # a helper with a side effect exists: tick(x) increments g0 and returns x
ETH = [False]      # packets are Ethernet frames with an unparsed ethertype: ($1).src/dst/type usable
MACS = ["11:22:33:44:55:66", "AA:BB:CC:DD:EE:FF", "00:00:00:00:00:00", "FF:FF:FF:FF:FF:FF", "02:42:AC:11:00:02"]


def gen_iexpr(rng, depth, nglob, locs):
    if depth <= 0 or rng.chance(35):
        k = rng.weighted([(25, "c"), (0 if NOVARS[0] else 30, "v"), (15 if nglob else 0, "g"), (12 if locs else 0, "l"), (0 if PKTLESS[0] else 18, "f"),
                          (8 if ETH[0] and not PKTLESS[0] else 0, "etype")])
        if k == "etype":
            return ["etype"]
        if k == "c":
            return ["c", rng.choice([0, 1, 2, 3, 7, 10, 60, 64, 100, 1000, 1514, 4096, 65535])]
        if k == "v":
            return ["v", "NP" if PKTLESS[0] else rng.choice(VARS)]
        if k == "g":
            return ["g", rng.below(nglob)]
        if k == "l":
            return ["l", rng.choice(locs)]
        return ["f", rng.choice(FIELDS)]
    op = rng.weighted([(35, "+"), (20, "-"), (20, "*"), (25, "%"), (14 if (NFUNCS[0] or TICK[0]) else 0, "call")])
    a = gen_iexpr(rng, depth - 1, nglob, locs)
    if op == "call":
        if TICK[0] and not PKTLESS[0] and (NFUNCS[0] == 0 or rng.chance(40)):
            return ["tick", a]
        if NFUNCS[0] == 0:
            return a
        return ["call", rng.below(NFUNCS[0]), a]
    if op == "*":
        return ["*", a, ["c", rng.choice([2, 3, 5, 16])]]
    if op == "%":
        return ["%", a, rng.choice([2, 3, 5, 7, 10, 64, 1000])]
    return [op, a, gen_iexpr(rng, depth - 1, nglob, locs)]


def gen_bexpr(rng, depth, nglob, locs):
    if depth <= 0 or rng.chance(50):
        k = rng.weighted([(80, "cmp"), (10, "t"), (10, "f"), (12 if ETH[0] and not PKTLESS[0] else 0, "maceq")])
        if k == "maceq":
            return ["maceq", rng.choice(["src", "dst"]), rng.choice(MACS)]
        if k == "cmp":
            return ["cmp", rng.choice(["==", "!=", "<", "<=", ">", ">="]), gen_iexpr(rng, depth, nglob, locs), gen_iexpr(rng, depth, nglob, locs)]
        return [k]
    k = rng.weighted([(40, "and"), (40, "or"), (20, "not")])
    if k == "not":
        return ["not", gen_bexpr(rng, depth - 1, nglob, locs)]
    return [k, gen_bexpr(rng, depth - 1, nglob, locs), gen_bexpr(rng, depth - 1, nglob, locs)]


def gen_stmts(rng, nglob, locs, fidx, skip, allow_if=True, allow_let=True, n=None, in_end=False):
    out = []
    n = n if n is not None else rng.range(1, 3)
    locs = list(locs)
    for _ in range(n):
        k = rng.weighted([(25 if nglob else 0, "gset"), (15 if allow_let else 0, "let"), (30, "eprint"), (12 if skip else 0, "print"),
                          (0 if in_end else 18, "fset"), (12 if allow_if else 0, "if"),
                          (34 if ETH[0] and not in_end else 0, "mac"), (8 if ETH[0] and not in_end else 0, "eprintmac")])
        if k == "mac":
            out.append(["mac", rng.choice(["src", "dst"]), rng.choice(MACS)])
            continue
        if k == "eprintmac":
            out.append(["eprintmac", "M%d" % fidx])
            continue
        if k == "gset":
            out.append(["gset", rng.below(nglob), ["%", gen_iexpr(rng, 2, nglob, locs), M]])
        elif k == "let":
            j = len(locs)
            out.append(["let", j, gen_iexpr(rng, 2, nglob, locs)])
            locs.append(j)
        elif k == "eprint":
            out.append(["eprint", "F%d" % fidx, [gen_iexpr(rng, 1, nglob, locs) for _ in range(rng.range(1, 4))]])
        elif k == "print":
            out.append(["print", "O%d" % fidx, [gen_iexpr(rng, 1, nglob, locs) for _ in range(rng.range(1, 3))]])
        elif k == "fset":
            out.append(["fset", rng.choice(["sec", "usec", "wirelen"]), gen_iexpr(rng, 2, nglob, locs)])
        else:
            out.append(["if", gen_bexpr(rng, 1, nglob, locs),
                        gen_stmts(rng, nglob, locs, fidx, skip, allow_if=False, allow_let=False, n=rng.range(1, 2), in_end=in_end),
                        gen_stmts(rng, nglob, locs, fidx, skip, allow_if=False, allow_let=False, n=rng.range(0, 1), in_end=in_end)])
    return out


def src_iexpr(e):
    t = e[0]
    if t == "c":
        return str(e[1])
    if t == "v":
        return e[1]
    if t == "g":
        return "g%d" % e[1]
    if t == "l":
        return "l%d" % e[1]
    if t == "f":
        return "($0).%s" % e[1]
    if t == "etype":
        return "($1).type"
    if t == "x":
        return "x"
    if t == "tick":
        return "tick(%s)" % src_iexpr(e[1])
    if t == "call":
        return "fn%d(%s)" % (e[1], src_iexpr(e[2]))
    if t == "%":
        return "(%s %% %d)" % (src_iexpr(e[1]), e[2])
    return "(%s %s %s)" % (src_iexpr(e[1]), t, src_iexpr(e[2]))


def src_bexpr(e):
    t = e[0]
    if t == "t":
        return "true"
    if t == "f":
        return "false"
    if t == "cmp":
        return "(%s %s %s)" % (src_iexpr(e[2]), e[1], src_iexpr(e[3]))
    if t == "maceq":
        return '(($1).%s == "%s")' % (e[1], e[2])
    if t == "not":
        return "!%s" % src_bexpr(e[1])
    return "(%s %s %s)" % (src_bexpr(e[1]), "&&" if t == "and" else "||", src_bexpr(e[2]))


def src_stmts(stmts):
    out = []
    for s in stmts:
        t = s[0]
        if t == "gset":
            out.append("g%d = %s;" % (s[1], src_iexpr(s[2])))
        elif t == "let":
            out.append("let l%d = %s;" % (s[1], src_iexpr(s[2])))
        elif t in ("eprint", "print"):
            fn = "eprintln" if t == "eprint" else "println"
            out.append('%s("%s%s", %s);' % (fn, s[1], " {}" * len(s[2]), ", ".join(src_iexpr(x) for x in s[2])))
        elif t == "fset":
            out.append("($0).%s = %s;" % (s[1], src_iexpr(s[2])))
        elif t == "exitif":
            out.append("if (NP == %d) { exit(%d); } else {  };" % (s[1], s[2]))
        elif t == "mac":
            out.append('($1).%s = "%s";' % (s[1], s[2]))
        elif t == "eprintmac":
            out.append('eprintln("%s {} {} {}", ($1).src, ($1).dst, ($1).type);' % s[1])
        elif t == "if":
            # `if` is an expression: without the ';' a following '(' would parse as a call on its value
            out.append("if %s { %s } else { %s };" % (src_bexpr(s[1]), src_stmts(s[2]), src_stmts(s[3])))
    return " ".join(out)


def program_source(prog):
    lines = []
    for i, v in enumerate(prog["globals"]):
        lines.append("let g%d = %d;" % (i, v))
    for i, body in enumerate(prog.get("funcs", [])):
        lines.append("let fn%d = fn(x) { %s };" % (i, src_iexpr(body)))
    if prog.get("tick"):
        lines.append("let tick = fn(x) { g0 = ((g0 + 1) %% %d); x };" % M)
    lines.append('eprintln("P%s"%s);' % (" {}" * len(prog["globals"]), "".join(", g%d" % i for i in range(len(prog["globals"])))))
    late = prog.get("late", [])
    endpos = prog.get("endpos")
    for fi, f in enumerate(prog["filters"]):
        if prog["end"] is not None and endpos == fi:
            lines.append("@ end { %s }" % src_stmts(prog["end"]))   # `end` need not be written last
        for pos, st in late:
            if pos == fi:
                lines.append(src_stmts([st]))
        if f["act"] is None:
            lines.append("@ %s" % src_bexpr(f["pat"]))
        elif f["pat"] is None:
            lines.append("@ { %s }" % src_stmts(f["act"]))
        else:
            lines.append("@ %s { %s }" % (src_bexpr(f["pat"]), src_stmts(f["act"])))
    if prog["end"] is not None and (endpos is None or endpos >= len(prog["filters"])):
        lines.append("@ end { %s }" % src_stmts(prog["end"]))
    for pos, st in late:
        if pos >= len(prog["filters"]):
            lines.append(src_stmts([st]))   # non-filter statements after the last filter still run once, first
    return "\n".join(lines) + "\n"


def _mac_text(data, which):
    off = 6 if which == "src" else 0
    return ":".join("%02X" % x for x in data[off:off + 6])


def _trunc_rem(a, b):
    q = abs(a) // abs(b)
    if (a < 0) != (b < 0):
        q = -q
    return a - q * b


class ExitProgram(Exception):
    def __init__(self, code):
        self.code = code


class Env(object):
    def __init__(self, globs):
        self.g = list(globs)
        self.vars = {"NP": None, "PL": None, "WL": None, "TSS": None, "TSU": None}
        self.pkt = None      # dict sec usec caplen wirelen data
        self.l = {}
        self.err = []
        self.out = []


def ev_i(e, env):
    t = e[0]
    if t == "c":
        return e[1]
    if t == "v":
        return env.vars[e[1]]
    if t == "g":
        return env.g[e[1]]
    if t == "l":
        return env.l[e[1]]
    if t == "f":
        return env.pkt[e[1]]
    if t == "etype":
        return (env.data[12] << 8) | env.data[13]
    if t == "x":
        return env.x
    if t == "tick":
        arg = ev_i(e[1], env)
        env.g[0] = _trunc_rem(env.g[0] + 1, M)
        return arg
    if t == "call":
        arg = ev_i(e[2], env)
        saved = getattr(env, "x", None)
        env.x = arg
        try:
            return ev_i(env.funcs[e[1]], env)
        finally:
            env.x = saved
    if t == "%":
        return _trunc_rem(ev_i(e[1], env), e[2])
    a, b = ev_i(e[1], env), ev_i(e[2], env)
    if t == "+":
        return a + b
    if t == "-":
        return a - b
    return a * b


def ev_b(e, env):
    t = e[0]
    if t == "t":
        return True
    if t == "f":
        return False
    if t == "not":
        return not ev_b(e[1], env)
    if t == "and":
        return ev_b(e[1], env) and ev_b(e[2], env)
    if t == "or":
        return ev_b(e[1], env) or ev_b(e[2], env)
    if t == "maceq":
        return _mac_text(env.data, e[1]) == e[2]
    if e[1] in ("<", "<="):
        # p2sh compiles `a < b` as `b > a`: the right operand is evaluated first, which a
        # side-effecting operand (tick) makes observable
        b = ev_i(e[3], env)
        a = ev_i(e[2], env)
    else:
        a, b = ev_i(e[2], env), ev_i(e[3], env)
    return {"==": a == b, "!=": a != b, "<": a < b, "<=": a <= b, ">": a > b, ">=": a >= b}[e[1]]


def ev_stmts(stmts, env):
    for s in stmts:
        t = s[0]
        if t == "gset":
            env.g[s[1]] = ev_i(s[2], env)
        elif t == "let":
            env.l[s[1]] = ev_i(s[2], env)
        elif t == "eprint":
            env.err.append(s[1] + "".join(" %d" % ev_i(x, env) for x in s[2]))
        elif t == "print":
            env.out.append(("text", s[1] + "".join(" %d" % ev_i(x, env) for x in s[2]) + "\n"))
        elif t == "fset":
            env.pkt[s[1]] = ev_i(s[2], env) & 0xFFFFFFFF
            env.modified = True
        elif t == "exitif":
            if env.vars["NP"] == s[1]:
                raise ExitProgram(s[2])
        elif t == "mac":
            off = 6 if s[1] == "src" else 0
            env.data[off:off + 6] = bytes(int(x, 16) for x in s[2].split(":"))
            env.modified = True
            env.nested_modified = True
        elif t == "eprintmac":
            env.err.append("%s %s %s %d" % (s[1], _mac_text(env.data, "src"), _mac_text(env.data, "dst"), (env.data[12] << 8) | env.data[13]))
        elif t == "if":
            ev_stmts(s[2] if ev_b(s[1], env) else s[3], env)


def reference(prog, hdr, recs, skip):
    """-> (stderr_lines, stdout_bytes, info)"""
    env = Env(prog["globals"])
    env.funcs = prog.get("funcs", [])
    env.err.append("P" + "".join(" %d" % v for v in env.g))
    # every non-filter statement runs once, before the stream, in source order
    ev_stmts([st for pos, st in sorted(prog.get("late", []), key=lambda t: t[0])], env)
    for kind, text in env.out:
        pass
    out = bytearray()
    pre_out = b"".join(text.encode() for kind, text in env.out)   # prints of late statements (only with -s)
    env.out = []
    out += pre_out
    if not skip:
        out += pcapfmt.global_header(hdr)
    info = {"selected": [], "modified_written": 0, "twice": 0}
    info["exit"] = 0
    try:
      for idx, r in enumerate(recs):
          data = pcapfmt.record_payload(r)
          env.data = bytearray(data)
          env.nested_modified = False
          env.pkt = {"sec": r["sec"], "usec": r["usec"], "caplen": len(data), "wirelen": r["wirelen"]}
          env.vars = {"NP": idx + 1, "PL": len(data), "WL": r["wirelen"], "TSS": r["sec"], "TSU": r["usec"]}
          env.modified = False
          nsel = 0
          for f in prog["filters"]:
              env.l = {}
              if f["act"] is None:
                  if ev_b(f["pat"], env):
                      nsel += 1
                      if not skip:
                          import struct
                          out += struct.pack("<IIII", env.pkt["sec"], env.pkt["usec"], env.pkt["caplen"], env.pkt["wirelen"]) + bytes(env.data)
                          if env.modified:
                              info["modified_written"] += 1
                          if env.nested_modified:
                              info["nested_written"] = info.get("nested_written", 0) + 1
              else:
                  if f["pat"] is None or ev_b(f["pat"], env):
                      ev_stmts(f["act"], env)
              # program prints reach stdout in program order
              for kind, text in env.out:
                  out += text.encode()
              env.out = []
          info["selected"].append(nsel)
          if nsel > 1:
              info["twice"] += 1
      if prog["end"] is not None:
          env.l = {}
          env.vars["NP"] = len(recs)
          env.vars["PL"] = None
          env.vars["WL"] = None
          ev_stmts(prog["end"], env)
          for kind, text in env.out:
              out += text.encode()
    except ExitProgram as ex:
        info["exit"] = ex.code
        info["exited"] = True
        for kind, text in env.out:
            out += text.encode()
    return env.err, bytes(out), info


# ---------------------------------------------------------------------------
# generation

def gen_program(rng, skip, eth=False):
    ETH[0] = eth
    try:
        return _gen_program(rng, skip)
    finally:
        ETH[0] = False


def _gen_program(rng, skip):
    nglob = rng.range(0, 3)
    prog = {"globals": [rng.choice([0, 1, 5, 100, 999]) for _ in range(nglob)], "filters": [], "end": None, "funcs": [], "late": []}
    # global helper functions: usable from patterns, actions and the end filter
    nfun = rng.weighted([(55, 0), (30, 1), (15, 2)])
    for i in range(nfun):
        base = rng.weighted([(60, ["x"]), (40, ["+", ["x"], ["g", rng.below(nglob)]] if nglob else ["x"])])
        prog["funcs"].append(["%", ["+", ["*", base, ["c", rng.choice([2, 3, 5])]], ["c", rng.choice([0, 1, 7])]], rng.choice([97, 1000, M])])
    NFUNCS[0] = nfun
    prog["tick"] = bool(nglob >= 1 and rng.chance(20))   # patterns and actions may then have a side effect on g0
    TICK[0] = prog["tick"]
    try:
        prog = _gen_program2(rng, skip, nglob, prog)
        if prog["end"] is not None and len(prog["filters"]) >= 2 and rng.chance(30):
            prog["endpos"] = rng.below(len(prog["filters"]))   # the end filter stands before some per-packet filters
        return prog
    finally:
        NFUNCS[0] = 0
        TICK[0] = False


def _gen_program2(rng, skip, nglob, prog):
    nf = rng.range(1, 5)
    end_only = rng.chance(7)   # a program whose only filter is `@ end`
    if end_only:
        nf = 0
    for i in range(nf):
        # a modifying action followed by a selecting filter is the interesting order
        k = rng.weighted([(40, "bare"), (35, "both"), (25, "act")]) if i < nf - 1 else rng.weighted([(60, "bare"), (25, "both"), (15, "act")])
        if k == "bare":
            # selecting filters: often-true patterns so that packets actually reach the output
            pat = rng.weighted([(25, ["t"]), (15, ["cmp", "!=", ["%", ["v", "NP"], rng.choice([2, 3, 5])], ["c", 0]]),
                                (10, ["cmp", ">=", ["v", "PL"], ["c", rng.choice([0, 1, 60])]]), (50, None)])
            if pat is None:
                pat = gen_bexpr(rng, 2, nglob, [])
            prog["filters"].append({"pat": pat, "act": None})
        elif k == "both":
            # (sometimes an empty action block: it is still an action, so the filter must never write the packet)
            prog["filters"].append({"pat": gen_bexpr(rng, 2, nglob, []), "act": [] if rng.chance(10) else gen_stmts(rng, nglob, [], i, skip)})
        else:
            prog["filters"].append({"pat": None, "act": [] if rng.chance(6) else gen_stmts(rng, nglob, [], i, skip)})
    if end_only or rng.chance(60):
        st = [["eprint", "END", [["v", "NP"]] + [["g", i] for i in range(nglob)]]]
        if rng.chance(30):
            PKTLESS[0] = True   # an end filter must not read per-packet state (PL/WL are null there)
            try:
                st = gen_stmts(rng, nglob, [], 9, skip, allow_if=True, allow_let=True, n=rng.range(1, 2), in_end=True) + st
            finally:
                PKTLESS[0] = False
        prog["end"] = st
    # awk-style early stop: one action ends the program with exit(code) at a chosen packet; everything written
    # and printed up to that point must still come out (exit flushes stdout)
    acts = [f for f in prog["filters"] if f["act"]]
    if acts and rng.chance(8):
        f = rng.choice(acts)
        f["act"] = f["act"] + [["exitif", rng.choice([1, 2, 3, 5, 17]), rng.choice([0, 0, 1, 3])]]
    # non-filter statements placed between / after the filters: they still run exactly once, before the stream
    if rng.chance(35):
        PKTLESS[0] = True
        NOVARS[0] = True
        try:
            for _ in range(rng.range(1, 2)):
                pos = rng.range(1, len(prog["filters"]) + 1)
                k = rng.weighted([(60, "eprint"), (40 if nglob else 0, "gset")])
                if k == "eprint":
                    st1 = ["eprint", "Q%d" % pos, [gen_iexpr(rng, 1, nglob, [])]]
                else:
                    st1 = ["gset", rng.below(nglob), ["%", gen_iexpr(rng, 2, nglob, []), M]]
                prog["late"].append([pos, st1])
            prog["late"].sort(key=lambda t: t[0])
        finally:
            PKTLESS[0] = False
            NOVARS[0] = False
    return prog


def _uses_pkt(node):
    """end filters must not read per-packet state (PL/WL are null there, $0 is the last packet)"""
    if isinstance(node, list):
        if node and node[0] == "v" and node[1] != "NP":
            return True
        if node and node[0] in ("f", "fset"):
            return True
        return any(_uses_pkt(x) for x in node[1:])
    return False


def generate(rng, tier, idx):
    skip = rng.chance(35)
    plain_hdr = rng.chance(40)
    hdr = pcapfmt.gen_header(rng, plain=plain_hdr)
    deep = tier == "thorough"
    n = rng.weighted([(8, 0), (12, 1), (30, rng.range(2, 6)), (35, rng.range(6, 20)), (15, rng.range(20, 40)), (10 if deep else 0, 40)])
    recs = [pcapfmt.gen_record(rng, hdr["snaplen"], allow_huge=rng.chance(3)) for _ in range(n)]
    if rng.chance(8 if deep else 4):
        # a long stream of tiny packets: per-packet resource handling (stack, frames) over thousands of filter invocations
        n = rng.choice([500, 1500, 5000])
        recs = [{"sec": i, "usec": (i * 7919) % 1000000, "wirelen": (i * 31) % 1600,
                 "data": {"t": "pattern", "n": min(hdr["snaplen"], i % 9), "mul": 1, "add": i % 256}} for i in range(n)]
    eth = len(recs) <= 40 and hdr["snaplen"] >= 64 and rng.chance(35)
    if eth:
        # every packet is an Ethernet frame whose ethertype p2sh leaves unparsed (payload stays raw)
        for r in recs:
            r["data"] = {"t": "eth", "n": max(14, r["data"]["n"]), "seed": r["data"]["seed"], "etype": rng.choice([0x88B5, 0x88B6, 0x9000])}
            r["wirelen"] = max(r["wirelen"], 0)
    cut = None
    if rng.chance(30):
        offs = pcapfmt.record_offsets(recs)
        total = offs[-1]
        where = rng.weighted([(35, "rhdr"), (35, "rdata"), (20, "boundary"), (10, "any")])
        if not recs:
            cut = 24
        elif where == "boundary":
            cut = offs[rng.below(len(offs))]
        else:
            j = rng.below(len(recs))
            if where == "rhdr":
                cut = offs[j] + rng.range(1, 15)
            elif where == "rdata" and recs[j]["data"]["n"] > 0:
                cut = offs[j] + 16 + rng.range(0, recs[j]["data"]["n"] - 1)
            else:
                cut = rng.range(24, total)
        cut = max(24, min(cut, total))
    flagpos = rng.weighted([(50, "before"), (20, "after_script"), (15, "after_arg"), (15, "long")])
    return {"hdr": hdr, "recs": recs, "cut": cut, "skip": skip, "prog": gen_program(rng, skip, eth), "eth": eth, "flagpos": flagpos,
            "cmd": rng.chance(25), "chunks": content.chunk_plan(rng), "rseed": rng.u64() >> 8}


def delivered(model):
    recs = model["recs"]
    if model["cut"] is None:
        return recs
    offs = pcapfmt.record_offsets(recs)
    k = 0
    while k < len(recs) and offs[k + 1] <= model["cut"]:
        k += 1
    return recs[:k]


def render(model):
    data = pcapfmt.file_bytes(model["hdr"], model["recs"])
    if model["cut"] is not None:
        data = data[: model["cut"]]
    src = program_source(model["prog"])
    plan = {"root": "d/", "paths": [], "stdin": "p", "chunks": model["chunks"], "rseed": model["rseed"], "faults": []}
    # the flag may stand before the program, after it, after a script argument, or be spelled out
    pos = model.get("flagpos", "before") if model["skip"] else None
    flag = "--skip-pcap" if pos == "long" else "-s"
    if model["cmd"]:
        argv = ([flag] if pos in ("before", "long") else []) + ["-c", src] + ([flag] if pos in ("after_script", "after_arg") else [])
        return {"argv": argv, "script": None, "files": {}, "dirs": ["d"], "stdin": data, "plan": plan}
    argv = ([flag] if pos in ("before", "long") else []) + ["s.p2"]
    if pos == "after_script":
        argv += [flag]
    elif pos == "after_arg":
        argv += ["somearg", flag]
    return {"argv": argv, "script": src, "files": {}, "dirs": ["d"], "stdin": data, "plan": plan}


# ---------------------------------------------------------------------------
# oracle

def _viol(sig, msg):
    return {"sig": "C20:" + sig, "msg": msg}


def check(model, results):
    res = results[0]
    viols = []
    stats = {}

    def inc(k, n=1):
        stats[k] = stats.get(k, 0) + n

    recs = delivered(model)
    exp_err, exp_out, info = reference(model["prog"], model["hdr"], recs, model["skip"])
    got_err = res.stderr.decode("utf-8", "replace").split("\n")
    if got_err and got_err[-1] == "":
        got_err.pop()
    if script.panic_or_crash(res.stderr):
        viols.append(_viol("process:panic", "panic: %r" % res.stderr[-300:]))
    if res.status != ("exit", info.get("exit", 0)):
        viols.append(_viol("process:status", "status %r, expected exit %d; stderr tail %r" % (res.status, info.get("exit", 0), res.stderr[-300:])))
    mode = "skip" if model["skip"] else "pcap"
    if got_err != exp_err:
        # classify the first difference
        j = 0
        while j < len(got_err) and j < len(exp_err) and got_err[j] == exp_err[j]:
            j += 1
        e = exp_err[j] if j < len(exp_err) else "<nothing>"
        g = got_err[j] if j < len(got_err) else "<nothing>"
        tag = (e.split(" ")[0] if e != "<nothing>" else g.split(" ")[0])[:6]
        kind = "prologue" if tag.startswith("P") else ("end" if tag.startswith("END") else "filter")
        if any("Runtime error" in l or "error" in l.lower() for l in got_err if not l[:1] in "PFEO"):
            kind = "errorline"
        viols.append(_viol("stderr:%s" % kind, "stderr differs at line %d of %d (expected %d lines): expected %r, got %r" % (j, len(got_err), len(exp_err), e[:120], g[:120])))
    if res.stdout != exp_out:
        if not model["skip"]:
            ghdr, grecs, gtrail = pcapfmt.parse(res.stdout)
            ehdr, erecs, _ = pcapfmt.parse(exp_out)
            if ghdr is None:
                viols.append(_viol("stdout:no_header", "stdout has %d bytes, no pcap global header" % len(res.stdout)))
            elif ghdr != ehdr:
                diff = sorted(k for k in ehdr if ehdr[k] != ghdr.get(k))
                viols.append(_viol("stdout:global_header", "output global header differs from the input's in %s: output %r, input %r" % ("+".join(diff), ghdr, ehdr)))
                if [tuple(r) for r in grecs] != [tuple(r) for r in erecs] or gtrail:
                    viols.append(_viol("stdout:records", "output has %d records (+%d trailing bytes), expected %d" % (len(grecs), gtrail, len(erecs))))
            else:
                g = [tuple(r) for r in grecs]
                e = [tuple(r) for r in erecs]
                cls = "missing" if len(g) < len(e) and e[:len(g)] == g else ("extra" if len(g) > len(e) and g[:len(e)] == e else "wrong")
                j = next((k for k, (a, b) in enumerate(zip(e, g)) if a != b), min(len(e), len(g)))
                viols.append(_viol("stdout:records:%s" % cls, "output pcap has %d records (+%d trailing bytes), expected %d; first difference at output record %d: expected %s, got %s" % (
                    len(g), gtrail, len(e), j, _rs(e[j]) if j < len(e) else "none", _rs(g[j]) if j < len(g) else "none")))
        else:
            viols.append(_viol("stdout:skip_text", "with -s stdout should carry only the program's prints: expected %r, got %r" % (exp_out[:120], res.stdout[:120])))

    # probes
    if not recs:
        inc("probe.zero_packets")
    if model["cut"] is not None:
        offs = pcapfmt.record_offsets(model["recs"])
        if model["cut"] in offs:
            inc("probe.cut_on_boundary")
        else:
            j = max(k for k in range(len(offs)) if offs[k] <= model["cut"])
            inc("probe.cut_in_record_header" if model["cut"] - offs[j] < 16 else "probe.cut_in_record_data")
    import bisect
    chunked = False
    offs = pcapfmt.record_offsets(model["recs"])
    for e in res.events:
        if e.call == "R" and e.action == 100:
            chunked = True
            inc("fired.chunk")
            b = e.off + e.res
            if b < 24:
                inc("probe.chunk_in_global_header")
            elif b < offs[-1]:
                j = bisect.bisect_right(offs, b) - 1
                if offs[j] != b and b - offs[j] < 16:
                    inc("probe.chunk_in_record_header")
    if info["modified_written"]:
        inc("probe.modified_then_written")
    if info["twice"]:
        inc("probe.written_twice")
    if info.get("nested_written"):
        inc("probe.nested_field_modified_then_written")
    if recs and not any(info["selected"]):
        inc("probe.no_packet_selected")
    if model["prog"]["end"] is not None:
        inc("probe.end_filter")
    if model["skip"]:
        inc("probe.skip_pcap")
    if model["hdr"] != pcapfmt.default_header(model["hdr"]["magic"]):
        inc("probe.nondefault_header")
    if "l0" in program_source(model["prog"]):
        inc("probe.local_used")
    if model["cmd"]:
        inc("probe.command_mode")
    if not model["prog"]["filters"]:
        inc("probe.end_only_program")
    if model["prog"].get("late"):
        inc("probe.late_nonfilter_statement")
    if "fn0(" in program_source(model["prog"]).split("eprintln(\"P", 1)[-1]:
        inc("probe.global_function_called")
    if any(r["data"]["n"] > 8192 for r in recs):
        inc("probe.packet_gt_8192")
    if len(recs) >= 500:
        inc("probe.long_stream")
    if any(f["act"] == [] for f in model["prog"]["filters"]):
        inc("probe.empty_action_block")
    if info.get("exited"):
        inc("probe.exit_in_action")
    if model["prog"].get("endpos") is not None:
        inc("probe.end_filter_not_last")
    if any(f["pat"] is not None and "tick" in json.dumps(f["pat"]) for f in model["prog"]["filters"]):
        inc("probe.side_effect_in_pattern")
    if model["skip"] and model.get("flagpos") == "after_arg" and not model["cmd"]:
        inc("probe.flag_after_script_argument")
    inc("ops.packets", len(recs))
    shape = "|".join(("b" if f["act"] is None else ("pa" if f["pat"] is not None else "a")) for f in model["prog"]["filters"]) + ("|e" if model["prog"]["end"] is not None else "")
    cutc = "nocut" if model["cut"] is None else ("cutb" if model["cut"] in offs else "cutm")
    hist = "%s;%s;%s;n%d;%s;%s;%s" % (shape, mode, "c" if model["cmd"] else "f", len(recs), cutc, "ch" if chunked else "full", "".join(str(min(s, 2)) for s in info["selected"]))
    nontrivial = bool(recs) and (chunked or model["cut"] is not None or info["modified_written"] > 0)
    return {"violations": viols, "stats": stats, "hist": hist, "nontrivial": nontrivial, "ops": len(recs) * len(model["prog"]["filters"])}


def _rs(t):
    return "(sec=%d usec=%d caplen=%d wirelen=%d data=%s%s)" % (t[0], t[1], t[2], t[3], t[4][:6].hex(), "..." if len(t[4]) > 6 else "")


# ---------------------------------------------------------------------------

def shrink(model):
    m = model
    n = len(m["recs"])
    if m["cut"] is None:
        if n > 0:
            yield dict(m, recs=m["recs"][: n // 2])
            yield dict(m, recs=m["recs"][:-1])
            yield dict(m, recs=m["recs"][1:])
    else:
        offs = pcapfmt.record_offsets(m["recs"])
        keep = next((k for k in range(n) if offs[k + 1] >= m["cut"]), n - 1) + 1 if n else 0
        if keep < n:
            yield dict(m, recs=m["recs"][:keep])
        yield dict(m, cut=None)
    cyc, sizes = m["chunks"]
    if sizes:
        yield dict(m, chunks=[0, []])
        if len(sizes) > 1:
            yield dict(m, chunks=[cyc, sizes[: len(sizes) // 2]])
    prog = m["prog"]
    if len(prog["filters"]) > 1:
        for i in range(len(prog["filters"])):
            yield dict(m, prog=dict(prog, filters=prog["filters"][:i] + prog["filters"][i + 1:]))
    if prog["end"] is not None:
        yield dict(m, prog=dict(prog, end=None))
    for i, f in enumerate(prog["filters"]):
        if f["act"] and len(f["act"]) > 1:
            for j in range(len(f["act"])):
                act = f["act"][:j] + f["act"][j + 1:]
                if _locals_ok(act):
                    fs = list(prog["filters"])
                    fs[i] = dict(f, act=act)
                    yield dict(m, prog=dict(prog, filters=fs))
        if f["pat"] is not None and f["pat"] != ["t"]:
            fs = list(prog["filters"])
            fs[i] = dict(f, pat=["t"])
            yield dict(m, prog=dict(prog, filters=fs))
    if m["cut"] is None:
        for j, r in enumerate(m["recs"]):
            if r["data"]["n"] > 32:
                recs = list(m["recs"])
                recs[j] = dict(r, data=dict(r["data"], n=r["data"]["n"] // 2), wirelen=r["wirelen"])
                yield dict(m, recs=recs)
    if m["hdr"] != pcapfmt.default_header(m["hdr"]["magic"]):
        for key in ("vmaj", "vmin", "zone", "sigfigs", "snaplen", "linktype"):
            d = pcapfmt.default_header()[key]
            if m["hdr"][key] != d and (key != "snaplen" or all(r["data"]["n"] <= d for r in m["recs"])):
                yield dict(m, hdr=dict(m["hdr"], **{key: d}))
    if m["cmd"]:
        yield dict(m, cmd=False)


def _locals_ok(act):
    defined = set()

    def uses(node):
        if isinstance(node, list):
            if node and node[0] == "l":
                return {node[1]}
            s = set()
            for x in node[1:]:
                s |= uses(x)
            return s
        return set()
    for s in act:
        if s[0] == "let":
            if not uses(s[2]) <= defined:
                return False
            defined.add(s[1])
        elif not uses(s) <= defined:
            return False
    return True


def sample(model, results):
    res = results[0]
    from sim.runner import plan_text
    conc = render(model)
    return {
        "program": program_source(model["prog"]),
        "argv": conc["argv"][:2],
        "header": model["hdr"],
        "packets": len(model["recs"]),
        "cut": model["cut"],
        "chunks": model["chunks"],
        "plan": plan_text(conc["plan"]),
        "status": list(res.status),
        "history_head": res.trace[:800],
        "stderr_head": res.stderr[:500].decode("utf-8", "replace"),
        "stdout_len": len(res.stdout),
    }
