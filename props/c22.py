"""C22 -- operating-system I/O failures become error objects, not crashes.

Simulated dimensions: which system call fails, with which errno, at which call position of
which operation, on which kind of handle (S2), plus real failing targets built in the scenario
directory.  The CLOCK delimiter (time() between operations) attributes every failed system
call in the recorded history to the operation in which it happened.

Oracle: an operation during which a system call failed (really or by injection) must return an
error object (EINTR: may also succeed with the correct value; a partial write: may also return
the short count); every other operation must return exactly what the fault-free reference
model says; the program always reaches DONE with exit status 0, without panic text and
without a runtime-error line.
"""
from sim import content, pcapfmt, script
from sim.prng import Rng
from props.c21 import wdata_bytes, _wdata_expr

ID = "C22"
LEVEL = "exploration"
BUDGET = {
    "quick": {"runs": 4500, "time_cap": 150, "determinism_sample": 40, "shrink_runs": 300},
    "thorough": {"runs": 80000, "time_cap": 1500, "determinism_sample": 300, "shrink_runs": 600},
}
BOUNDS = "quick: <=14 operations and <=2 injected faults per process (thorough: <=28 operations, <=4 faults) (one per faulted operation), fault position = 1st..3rd matching system call of the operation; fixtures <=40 kB"
RULE = ("runs 0..S-1 are a systematic block: every listed builtin x every applicable real failing target, and every "
        "builtin x injected errno (EIO, ENOSPC, partial write then ENOSPC, EPIPE, EACCES, EMFILE, EINTR, plain short write) "
        "x call position (1st/2nd) x handle position (fresh / after a healthy operation); later runs are seeded random "
        "operation sequences with 0-2 faulted operations; two runs are the same case iff (operation kinds, per-call "
        "(call, descriptor kind, result class)) agree; non-trivial iff at least one system call failed or was cut short")
ASSUMPTIONS = [
    "a failed system call is attributed to the operation whose CLOCK delimiters enclose it in the recorded history",
    "EINTR and plain short writes are legal-but-unobserved for p2sh (it installs no signal handlers): the operation may return an error object or the correct result",
    "after an operation failed on a stream handle the handle's position is unspecified: later operations on it must not crash and must return an error object or a value of the right type, their data is not compared",
    "errors that std swallows by design (flush-on-drop when the program ends) are outside the statement",
    "stderr is the observation channel and is never faulted; write(stderr, ...) under faults is therefore not covered",
    "search is seeded sampling beyond the systematic block: a clean batch is evidence, not proof",
]
PROBES = [
    "probe.fault_in_flush", "probe.fault_in_direct_write", "probe.fault_on_overflow", "probe.fault_in_header_read",
    "probe.fault_in_record_read", "probe.fault_on_open", "probe.fault_on_stdin", "probe.fault_on_stdout",
    "probe.real_enoent", "probe.real_eisdir", "probe.real_eexist", "probe.real_enotdir", "probe.real_enospc",
    "probe.real_enametoolong", "probe.real_eloop", "probe.real_eio",
    "probe.nonpcap", "probe.op_after_fault_ok", "probe.eintr_retried", "probe.second_fault", "probe.read_on_broken_source", "probe.flush_stdout_acknowledged",
]

EINTR = 4
ACTION_NAMES = {1: "EIO", 2: "ENOSPC", 3: "EPIPE", 4: "EACCES", 5: "EMFILE", 6: "EINTR", 7: "SHORT_THEN_ENOSPC", 9: "PLAIN_SHORT",
                12: "EAGAIN",   # EAGAIN: the descriptor was inherited in non-blocking mode and no data is ready
                20: "ERRNO",    # any other errno a deployment can meet (argument = errno)
                21: "STICKY"}   # the read fails now and on every later read of that descriptor
# errno values by call kind for action 20 (network file systems, sockets as stdin/stdout, quotas, odd devices)
READ_ERRNOS = [22, 12, 116, 110, 104, 6]             # EINVAL ENOMEM ESTALE ETIMEDOUT ECONNRESET ENXIO
# (EBADF is not injected: a descriptor that was valid cannot start returning it, and Rust's std deliberately
# treats EBADF on the standard streams as 'closed' = end of input / data discarded)
WRITE_ERRNOS = [27, 122, 30, 6, 104, 22, 12, 116]    # EFBIG EDQUOT EROFS ENXIO ECONNRESET EINVAL ENOMEM ESTALE
OPEN_ERRNOS = [23, 12, 30, 26, 75, 1, 16, 19, 116]   # ENFILE ENOMEM EROFS ETXTBSY EOVERFLOW EPERM EBUSY ENODEV ESTALE

# fixture paths (relative to the run directory)
GOOD = "d/good.txt"
SMALL = "d/small.txt"
EXISTS = "d/exists.txt"
DIR = "d/dir"
NOTDIR = "d/small.txt/sub"
MISSING = "d/missing"
NODIR = "d/nodir/file"
FULL = "/dev/full"
GOODP = "d/good.pcap"
TRUNCP = "d/trunc.pcap"
EMPTYP = "d/empty.pcap"
SHORTP = "d/short.pcap"
GARBP = "d/garbage.pcap"
NEARP = "d/nearmagic.pcap"     # a complete capture whose magic is A1B2CD34 ("modified pcap"): not the format p2sh reads
PKP = "d/pk.pcap"
LONG = "d/" + "n" * 300          # ENAMETOOLONG
LOOP = "d/loop"                  # symlink to itself: ELOOP
PROCMEM = "/proc/self/mem"       # opens fine, every read(2) at offset 0 fails with EIO
NOTDIR_SLASH = "d/small.txt/"    # a trailing separator after a regular file: ENOTDIR
NOTDIR_DOT = "d/small.txt/."     # likewise
PROCDIR = "/proc/self"           # a directory that reports size 0: opens fine, every read(2) fails with EISDIR
PATH_IDS = {GOOD: 1, SMALL: 2, EXISTS: 3, DIR: 4, NOTDIR: 5, MISSING: 6, NODIR: 7, FULL: 8, GOODP: 9, TRUNCP: 10,
            EMPTYP: 11, SHORTP: 12, GARBP: 13, PKP: 14, PROCMEM: 15, PROCDIR: 16, NEARP: 17}


def fresh_path(i):
    return "d/out%d" % i


# ---------------------------------------------------------------------------
# fixtures

def fixtures(fix):
    """-> (files, dirs, info) deterministic from the fixture spec"""
    r = Rng(fix["seed"])
    good = content.expand({"t": "text", "n": fix["good_n"], "seed": fix["seed"] ^ 0x11, "linemax": fix.get("linemax", 200), "multi": 5, "final_nl": 1})
    small = content.expand({"t": "text", "n": fix["small_n"], "seed": fix["seed"] ^ 0x22, "linemax": 30, "multi": 0})
    exists = b"already here\n"
    hdr = pcapfmt.default_header(pcapfmt.MAGIC_US if fix["seed"] & 1 else pcapfmt.MAGIC_NS)
    hdr["snaplen"] = 65535
    rr = Rng(fix["seed"] ^ 0x33)
    recs = []
    for i in range(fix["nrec"]):
        n = rr.choice([0, 14, 60, 342, 1514, 4080, 8170, 9000])
        recs.append({"sec": 1000 + i, "usec": rr.range(0, 999999), "wirelen": n + rr.choice([0, 0, 10]), "data": {"t": "pattern", "n": n, "mul": 3, "add": i}})
    goodp = pcapfmt.file_bytes(hdr, recs)
    offs = pcapfmt.record_offsets(recs)
    # torn pcap: cut inside the last record (or inside its header)
    if recs:
        cut = offs[-2] + rr.choice([1, 8, 15, 16, 17]) if len(pcapfmt.record_payload(recs[-1])) > 1 else offs[-2] + 8
        cut = min(cut, offs[-1] - 1)
    else:
        cut = 24
    truncp = goodp[:cut]
    trunc_recs = recs[:-1] if recs else []
    garb = Rng(fix["seed"] ^ 0x44).bytes(64)
    if garb[:4] in (b"\xd4\xc3\xb2\xa1", b"\x4d\x3c\xb2\xa1"):
        garb = b"\0" + garb[1:]
    pk = [
        {"sec": 7, "usec": 8, "wirelen": 60, "data": {"t": "pattern", "n": 60, "mul": 5, "add": 1}},
        {"sec": 9, "usec": 10, "wirelen": 9000, "data": {"t": "pattern", "n": 9000, "mul": 7, "add": 2}},
    ]
    files = {GOOD: good, SMALL: small, EXISTS: exists, GOODP: goodp, TRUNCP: truncp, EMPTYP: b"", SHORTP: goodp[:10],
             NEARP: b"\x34\xcd\xb2\xa1" + goodp[4:],
             GARBP: garb, PKP: pcapfmt.file_bytes(pcapfmt.default_header(), pk)}
    info = {"good": good, "small": small, "exists": exists, "recs": recs, "trunc_recs": trunc_recs, "hdr": hdr, "pk": pk, "garb": garb}
    return files, ["d", DIR], info


SYMLINKS = {LOOP: "loop"}


def stdin_bytes(model, info):
    k = model["stdin"]
    if k == "text":
        return info["good"][: model["fix"]["good_n"] // 2]
    if k == "pcap":
        return pcapfmt.file_bytes(info["hdr"], info["recs"])
    if k == "garbage":
        return info["garb"]
    return b""


# ---------------------------------------------------------------------------
# generation

def _fix(rng):
    return {"seed": rng.u64() >> 16, "good_n": rng.choice([100, 5000, 8192, 8200, 20000, 40000]), "small_n": rng.choice([1, 50, 300]),
            "nrec": rng.range(1, 6), "linemax": rng.choice([20, 200, 9000])}


def _data_bytes(d, info):
    """bytes that write(h, <data>) hands to the handle"""
    if d["t"] == "pkt":
        return pcapfmt.record_bytes(info["pk"][d["i"]])
    return wdata_bytes(d)


def _data_len(d):
    if d["t"] == "pkt":
        return 16 + (60, 9000)[d["i"]]
    return len(wdata_bytes(d))


def _wd(kind):
    if kind == "nl_byte":
        return {"t": "byte", "v": 10}
    if kind == "pkt_small":
        return {"t": "pkt", "i": 0}
    if kind == "pkt_big":
        return {"t": "pkt", "i": 1}
    if kind == "small":
        return {"t": "str", "unit": "line\n", "rep": 3}
    if kind == "nonl":
        return {"t": "str", "unit": "abc", "rep": 2}
    if kind == "big":
        return {"t": "arr", "n": 9000, "mul": 7, "add": 1}
    if kind == "mid":
        return {"t": "arr", "n": 5000, "mul": 3, "add": 9}
    if kind == "fill":   # mid + fill leave 8150 of 8192 bytes buffered: the next write of > 42 bytes spills
        return {"t": "arr", "n": 3150, "mul": 5, "add": 2}
    raise ValueError(kind)


def systematic_cases():
    cases = []

    def case(ops, stdin="text", note=""):
        cases.append({"fix": {"seed": 1000 + len(cases), "good_n": 20000, "small_n": 50, "nrec": 4, "linemax": 200},
                      "stdin": stdin, "ops": ops + [{"op": "open", "path": SMALL, "mode": "r", "var": "z"}, {"op": "read", "h": "z", "n": None}],
                      "note": note, "rseed": 7})

    # A. real failing targets
    for mode in ("r", "w", "a", "x"):
        for path in (MISSING, DIR, EXISTS, NOTDIR, NODIR, FULL, GOOD, fresh_path(0), LONG, LOOP, PROCMEM, PROCDIR, NOTDIR_SLASH, NOTDIR_DOT):
            if path == FULL and mode == "r":
                continue
            if path in (PROCMEM, PROCDIR) and mode != "r":
                continue
            ops = [{"op": "open", "path": path, "mode": mode, "var": "h"}]
            if mode == "r":
                ops += [{"op": "read", "h": "h", "n": 10}, {"op": "read_line", "h": "h"}, {"op": "read_to_string", "h": "h"}, {"op": "read", "h": "h", "n": None},
                        {"op": "read", "h": "h", "n": 1}, {"op": "read", "h": "h", "n": 0}]
            else:
                ops += [{"op": "write", "h": "h", "data": _wd("small")}, {"op": "flush", "h": "h"}, {"op": "write", "h": "h", "data": _wd("big")},
                        {"op": "write", "h": "h", "data": _wd("small")}, {"op": "flush", "h": "h"}, {"op": "write", "h": "h", "data": _wd("pkt_big")},
                        {"op": "write", "h": "h", "data": _wd("pkt_small")}]
            case(ops, note="real target %s mode %s" % (path, mode))
    for mode in ("r", "w", "x"):
        for path in (MISSING, DIR, EXISTS, NOTDIR, NODIR, FULL, GOODP, TRUNCP, EMPTYP, SHORTP, GARBP, SMALL, fresh_path(0), LONG, LOOP, PROCMEM, NOTDIR_SLASH, NEARP):
            if path == FULL and mode == "r":
                continue
            if path == PROCMEM and mode != "r":
                continue
            ops = [{"op": "pcap_open", "path": path, "mode": mode, "var": "p"}]
            if mode == "r":
                ops += [{"op": "pcap_read_next", "h": "p"}, {"op": "pcap_read_all", "h": "p", "n": 2}, {"op": "pcap_read_all", "h": "p", "n": None}, {"op": "pcap_read_next", "h": "p"}]
            else:
                ops += [{"op": "pcap_write", "h": "p", "pkt": 0}, {"op": "pcap_write", "h": "p", "pkt": 1}, {"op": "pcap_write", "h": "p", "pkt": 0}]
            case(ops, note="real pcap target %s mode %s" % (path, mode))
    for st in ("empty", "garbage", "text", "pcap"):
        case([{"op": "pcap_stream", "which": "stdin", "var": "p"}, {"op": "pcap_read_next", "h": "p"}, {"op": "pcap_read_all", "h": "p", "n": None}], stdin=st, note="pcap_stream(stdin) on %s" % st)
        if st != "pcap":
            case([{"op": "read", "h": "stdin", "n": 5}, {"op": "read_line", "h": "stdin"}, {"op": "read", "h": "stdin", "n": None}, {"op": "read_line", "h": "stdin"}], stdin=st, note="stdin reads on %s" % st)

    # B. injected errno on open
    for act in (4, 5, 6):
        for op, mode, path in (("open", "r", GOOD), ("open", "w", fresh_path(0)), ("open", "a", EXISTS), ("open", "x", fresh_path(1)),
                               ("pcap_open", "r", GOODP), ("pcap_open", "w", fresh_path(2)), ("pcap_open", "x", fresh_path(3))):
            ops = [{"op": op, "path": path, "mode": mode, "var": "h", "fault": ["O", 1, act, 0]}]
            if op == "open" and mode == "r":
                ops.append({"op": "read", "h": "h", "n": 10})
            case(ops, note="%s %s with %s on open(2)" % (op, mode, ACTION_NAMES[act]))
    # C. injected errno on read(2)
    for act in (1, 6, 12):
        for nth in (1, 2):
            for warm in (False, True):
                pre = [{"op": "open", "path": GOOD, "mode": "r", "var": "h"}]
                if warm:
                    pre.append({"op": "read", "h": "h", "n": 7})
                for opd in ({"op": "read", "h": "h", "n": 1}, {"op": "read", "h": "h", "n": 10}, {"op": "read", "h": "h", "n": 12000}, {"op": "read", "h": "h", "n": None}, {"op": "read_line", "h": "h"}, {"op": "read_to_string", "h": "h"}):
                    o = dict(opd, fault=["R", nth, act, 0])
                    case(pre + [o, {"op": "read", "h": "h", "n": 5}], note="%s with %s on read(2) #%d" % (opd["op"], ACTION_NAMES[act], nth))
                # pcap
                o = {"op": "pcap_open", "path": GOODP, "mode": "r", "var": "p", "fault": ["R", nth, act, 0]}
                case([o, {"op": "pcap_read_next", "h": "p"}], note="pcap_open with %s" % ACTION_NAMES[act])
                prep = [{"op": "pcap_open", "path": GOODP, "mode": "r", "var": "p"}]
                if warm:
                    prep.append({"op": "pcap_read_next", "h": "p"})
                for opd in ({"op": "pcap_read_next", "h": "p"}, {"op": "pcap_read_all", "h": "p", "n": None}, {"op": "pcap_read_all", "h": "p", "n": 2}):
                    case(prep + [dict(opd, fault=["R", nth, act, 0]), {"op": "pcap_read_next", "h": "p"}], note="%s with %s" % (opd["op"], ACTION_NAMES[act]))
                # stdin
                for opd in ({"op": "read", "h": "stdin", "n": 10}, {"op": "read", "h": "stdin", "n": None}, {"op": "read_line", "h": "stdin"}):
                    pres = [{"op": "read", "h": "stdin", "n": 3}] if warm else []
                    case(pres + [dict(opd, fault=["R", nth, act, 0]), {"op": "read", "h": "stdin", "n": 4}], note="stdin %s with %s" % (opd["op"], ACTION_NAMES[act]))
                case([{"op": "pcap_stream", "which": "stdin", "var": "p", "fault": ["R", nth, act, 0]}, {"op": "pcap_read_next", "h": "p"}], stdin="pcap", note="pcap_stream(stdin) with %s" % ACTION_NAMES[act])
                case([{"op": "pcap_stream", "which": "stdin", "var": "p"}] + ([{"op": "pcap_read_next", "h": "p"}] if warm else []) +
                     [{"op": "pcap_read_next", "h": "p", "fault": ["R", nth, act, 0]}, {"op": "pcap_read_all", "h": "p", "n": None, "fault": ["R", nth, act, 0]}], stdin="pcap",
                     note="pcap reads on stdin with %s" % ACTION_NAMES[act])
    # C1b. a source that stays broken: every later read on it must report the failure again
    for en in (5, 11):
        case([{"op": "open", "path": GOOD, "mode": "r", "var": "h"}, {"op": "read", "h": "h", "n": 10, "fault": ["R", 1, 21, en]}, {"op": "read", "h": "h", "n": 10},
              {"op": "read_line", "h": "h"}, {"op": "read_to_string", "h": "h"}], note="file keeps failing with errno %d" % en)
        case([{"op": "pcap_open", "path": GOODP, "mode": "r", "var": "p"}, {"op": "pcap_read_next", "h": "p", "fault": ["R", 1, 21, en]}, {"op": "pcap_read_next", "h": "p"},
              {"op": "pcap_read_all", "h": "p", "n": None}, {"op": "pcap_read_all", "h": "p", "n": 2}], note="pcap file keeps failing with errno %d" % en)
        case([{"op": "pcap_stream", "which": "stdin", "var": "p"}, {"op": "pcap_read_next", "h": "p"}, {"op": "pcap_read_next", "h": "p", "fault": ["R", 1, 21, en]},
              {"op": "pcap_read_next", "h": "p"}, {"op": "pcap_read_all", "h": "p", "n": None}], stdin="pcap", note="pcap stream on stdin keeps failing with errno %d" % en)
        case([{"op": "read_line", "h": "stdin", "fault": ["R", 1, 21, en]}, {"op": "read_line", "h": "stdin"}, {"op": "read", "h": "stdin", "n": 5}], note="stdin keeps failing with errno %d" % en)
    # C1c. data pending in stdout's buffer that did not come from write(stdout, ...): flush must report the failure
    for act in (2, 3, 1):
        case([{"op": "pcap_stream", "which": "stdout", "var": "p"}, {"op": "flush", "h": "stdout", "fault": ["W", 1, act, 0]}], note="header pending, flush(stdout) with %s" % ACTION_NAMES[act])
        case([{"op": "pcap_stream", "which": "stdout", "var": "p"}, {"op": "pcap_write", "h": "p", "pkt": 0}, {"op": "flush", "h": "stdout", "fault": ["W", 1, act, 0]}], note="record pending, flush(stdout) with %s" % ACTION_NAMES[act])
    # C2. less common errno values (std maps some of them to special ErrorKinds)
    for en in READ_ERRNOS:
        pre = [{"op": "open", "path": GOOD, "mode": "r", "var": "h"}]
        for opd in ({"op": "read", "h": "h", "n": 12000}, {"op": "read_line", "h": "h"}, {"op": "read_to_string", "h": "h"}):
            case(pre + [dict(opd, fault=["R", 1, 20, en]), {"op": "read", "h": "h", "n": 5}], note="%s with errno %d on read(2)" % (opd["op"], en))
        case([{"op": "read_line", "h": "stdin", "fault": ["R", 1, 20, en]}, {"op": "read", "h": "stdin", "n": 4}], note="read_line(stdin) with errno %d" % en)
        case([{"op": "pcap_open", "path": GOODP, "mode": "r", "var": "p"}, {"op": "pcap_read_next", "h": "p", "fault": ["R", 1, 20, en]}, {"op": "pcap_read_all", "h": "p", "n": None}], note="pcap_read_next with errno %d" % en)
    for en in WRITE_ERRNOS:
        opn = [{"op": "open", "path": fresh_path(0), "mode": "w", "var": "h"}]
        case(opn + [{"op": "write", "h": "h", "data": _wd("small")}, {"op": "flush", "h": "h", "fault": ["W", 1, 20, en]}], note="flush with errno %d" % en)
        case(opn + [{"op": "write", "h": "h", "data": _wd("big"), "fault": ["W", 1, 20, en]}], note="write with errno %d" % en)
        case([{"op": "write", "h": "stdout", "data": _wd("small"), "fault": ["W", 1, 20, en]}], note="write(stdout) with errno %d" % en)
    for en in OPEN_ERRNOS:
        case([{"op": "open", "path": GOOD, "mode": "r", "var": "h", "fault": ["O", 1, 20, en]}], note="open r with errno %d" % en)
        case([{"op": "pcap_open", "path": fresh_path(1), "mode": "w", "var": "p", "fault": ["O", 1, 20, en]}], note="pcap_open w with errno %d" % en)
    # D. injected errno on write(2)
    for act in (2, 7, 1, 3, 6, 9):
        for nth in (1, 2):
            opn = [{"op": "open", "path": fresh_path(0), "mode": "w", "var": "h"}]
            f = ["W", nth, act, 3]
            case(opn + [{"op": "write", "h": "h", "data": _wd("small")}, {"op": "flush", "h": "h", "fault": f}, {"op": "write", "h": "h", "data": _wd("small")}, {"op": "flush", "h": "h"}], note="flush with %s" % ACTION_NAMES[act])
            case(opn + [{"op": "write", "h": "h", "data": _wd("big"), "fault": f}, {"op": "flush", "h": "h"}], note="direct write with %s" % ACTION_NAMES[act])
            case(opn + [{"op": "write", "h": "h", "data": _wd("mid")}, {"op": "write", "h": "h", "data": _wd("mid"), "fault": f}, {"op": "flush", "h": "h"}], note="overflowing write with %s" % ACTION_NAMES[act])
            case(opn + [{"op": "write", "h": "h", "data": _wd("small")}, {"op": "write", "h": "h", "data": _wd("big"), "fault": f}, {"op": "flush", "h": "h"}], note="flush-then-direct write with %s" % ACTION_NAMES[act])
            case(opn + [{"op": "write", "h": "h", "data": _wd("pkt_big"), "fault": f}, {"op": "flush", "h": "h"}], note="write(h, big packet) with %s" % ACTION_NAMES[act])
            case(opn + [{"op": "write", "h": "h", "data": _wd("mid")}, {"op": "write", "h": "h", "data": _wd("fill")}, {"op": "write", "h": "h", "data": _wd("pkt_small"), "fault": f}, {"op": "flush", "h": "h"}],
                 note="write(h, small packet) spilling the buffer with %s" % ACTION_NAMES[act])
            case([{"op": "write", "h": "stdout", "data": _wd("pkt_big"), "fault": f}], note="write(stdout, packet) with %s" % ACTION_NAMES[act])
            case([{"op": "write", "h": "stdout", "data": _wd("nonl")}, {"op": "write", "h": "stdout", "data": _wd("nl_byte"), "fault": f}, {"op": "write", "h": "stdout", "data": _wd("small")}],
                 note="write(stdout, newline byte) with %s" % ACTION_NAMES[act])
            pw = [{"op": "pcap_open", "path": fresh_path(1), "mode": "w", "var": "p"}]
            case(pw + [{"op": "pcap_write", "h": "p", "pkt": 1, "fault": f}, {"op": "pcap_write", "h": "p", "pkt": 0}], note="pcap_write big with %s" % ACTION_NAMES[act])
            case(pw + [{"op": "pcap_write", "h": "p", "pkt": 1}, {"op": "pcap_write", "h": "p", "pkt": 1, "fault": f}], note="pcap_write 2nd big with %s" % ACTION_NAMES[act])
            case([{"op": "write", "h": "stdout", "data": _wd("small"), "fault": f}, {"op": "write", "h": "stdout", "data": _wd("small")}], note="write(stdout) with %s" % ACTION_NAMES[act])
            case([{"op": "write", "h": "stdout", "data": _wd("nonl")}, {"op": "flush", "h": "stdout", "fault": f}], note="flush(stdout) with %s" % ACTION_NAMES[act])
            case([{"op": "write", "h": "stdout", "data": _wd("big"), "fault": f}], note="write(stdout) big with %s" % ACTION_NAMES[act])
            case([{"op": "pcap_stream", "which": "stdout", "var": "p"}, {"op": "pcap_write", "h": "p", "pkt": 1, "fault": f}, {"op": "pcap_write", "h": "p", "pkt": 0}], note="pcap_write(stdout) with %s" % ACTION_NAMES[act])
    return cases


_SYS = None


def systematic():
    global _SYS
    if _SYS is None:
        _SYS = systematic_cases()
    return _SYS


def gen_random(rng, deep=False):
    fix = _fix(rng)
    stdin = rng.weighted([(40, "text"), (30, "pcap"), (15, "garbage"), (15, "empty")])
    ops = []
    live = {"stdin": "stdin", "stdout": "stdout"}   # var -> kind (fault-free expectation)
    nvar = 0
    nfresh = 0
    nops = rng.range(3, 28 if deep else 14)
    stdin_is_pcap_handle = False
    for _ in range(nops):
        users = [v for v, k in live.items() if k != "err"]
        if len(users) <= 2 or rng.chance(22):
            # create a handle
            which = rng.weighted([(50, "open"), (40, "pcap_open"), (10, "pcap_stream")])
            var = "v%d" % nvar
            nvar += 1
            if which == "open":
                mode = rng.weighted([(45, "r"), (25, "w"), (15, "a"), (15, "x")])
                if mode == "r":
                    path = rng.weighted([(40, GOOD), (15, SMALL), (8, MISSING), (10, DIR), (8, NOTDIR), (5, NODIR), (7, GOODP), (7, EXISTS), (4, LONG), (4, LOOP), (7, PROCMEM), (5, PROCDIR), (4, NOTDIR_SLASH), (3, NOTDIR_DOT)])
                    kind = "reader" if path in (GOOD, SMALL, GOODP, EXISTS) else ("dirreader" if path in (DIR, PROCMEM, PROCDIR) else "err")  # generator-side kind only
                else:
                    path = rng.weighted([(40, "fresh"), (12, EXISTS), (8, DIR), (8, NOTDIR), (8, NODIR), (16, FULL), (8, GOOD), (4, LONG), (4, LOOP), (4, NOTDIR_SLASH), (3, NOTDIR_DOT)])
                    if path == "fresh":
                        path = fresh_path(nfresh)
                        nfresh += 1
                    if path in (DIR, NOTDIR, NODIR, LONG, LOOP, NOTDIR_SLASH, NOTDIR_DOT):
                        kind = "err"
                    elif mode == "x" and not path.startswith("d/out"):
                        kind = "err"
                    else:
                        kind = "fullwriter" if path == FULL else "writer"
                ops.append({"op": "open", "path": path, "mode": mode, "var": var})
            elif which == "pcap_open":
                mode = rng.weighted([(60, "r"), (25, "w"), (15, "x")])
                if mode == "r":
                    path = rng.weighted([(40, GOODP), (14, TRUNCP), (7, EMPTYP), (7, SHORTP), (7, GARBP), (6, SMALL), (7, MISSING), (6, DIR), (6, NOTDIR), (3, LONG), (3, LOOP), (5, PROCMEM), (6, NEARP)])
                    kind = "pcapr" if path in (GOODP, TRUNCP) else "err"
                else:
                    path = rng.weighted([(45, "fresh"), (10, EXISTS), (8, DIR), (8, NOTDIR), (8, NODIR), (21, FULL), (3, LONG), (3, LOOP)])
                    if path == "fresh":
                        path = fresh_path(nfresh)
                        nfresh += 1
                    if path in (DIR, NOTDIR, NODIR, LONG, LOOP) or (mode == "x" and not path.startswith("d/out")):
                        kind = "err"
                    else:
                        kind = "pcapw"
                ops.append({"op": "pcap_open", "path": path, "mode": mode, "var": var})
            else:
                w = "stdin" if (rng.chance(60) and not stdin_is_pcap_handle) else "stdout"
                if w == "stdin":
                    stdin_is_pcap_handle = True
                    kind = "pcapr" if stdin == "pcap" else "err"
                    live.pop("stdin", None)
                else:
                    kind = "pcapw"
                ops.append({"op": "pcap_stream", "which": w, "var": var})
            live[var] = kind
            continue
        v = rng.choice(users)
        k = live[v]
        if k in ("reader", "dirreader", "stdin"):
            if k == "stdin" and stdin == "pcap":
                continue
            c = rng.weighted([(35, "read"), (15, "readall"), (30, "read_line"), (0 if k == "stdin" else 20, "read_to_string")])
            if c == "read":
                ops.append({"op": "read", "h": v, "n": rng.choice([0, 1, 10, 100, 4096, 8192, 9000, 12000, 50000])})
            elif c == "readall":
                ops.append({"op": "read", "h": v, "n": None})
            else:
                ops.append({"op": c, "h": v})
        elif k in ("writer", "fullwriter", "stdout"):
            if rng.chance(70):
                ops.append({"op": "write", "h": v, "data": _wd(rng.weighted([(32, "small"), (12, "nonl"), (20, "big"), (16, "mid"), (8, "pkt_small"), (7, "pkt_big"), (5, "nl_byte")]))})
            else:
                ops.append({"op": "flush", "h": v})
        elif k == "pcapr":
            c = rng.weighted([(50, "pcap_read_next"), (25, "all"), (25, "alln")])
            if c == "pcap_read_next":
                ops.append({"op": "pcap_read_next", "h": v})
            elif c == "all":
                ops.append({"op": "pcap_read_all", "h": v, "n": None})
            else:
                ops.append({"op": "pcap_read_all", "h": v, "n": rng.range(0, 4)})
        elif k == "pcapw":
            ops.append({"op": "pcap_write", "h": v, "pkt": 1 if rng.chance(45) else 0})
    # faults: 0-2 faulted operations, placed where they can fire
    nf = rng.weighted([(10, 0), (60, 1), (30, 2), (15 if deep else 0, 3), (8 if deep else 0, 4)])
    idxs = list(range(len(ops)))
    rng.shuffle(idxs)
    placed = 0
    for i in idxs:
        if placed >= nf:
            break
        o = ops[i]
        if o["op"] in ("open", "pcap_open") and rng.chance(35):
            o["fault"] = ["O", 1, rng.choice([4, 5, 6]), 0]
            if rng.chance(30):
                o["fault"] = ["O", 1, 20, rng.choice(OPEN_ERRNOS)]
        elif o["op"] in ("read", "read_line", "read_to_string", "pcap_read_next", "pcap_read_all", "pcap_stream") or (o["op"] == "pcap_open" and o["mode"] == "r"):
            o["fault"] = ["R", rng.weighted([(70, 1), (20, 2), (10, 3)]), rng.weighted([(60, 1), (22, 6), (18, 12)]), 0]
            if rng.chance(25):
                o["fault"] = ["R", o["fault"][1], 20, rng.choice(READ_ERRNOS)]
            elif rng.chance(15):
                o["fault"] = ["R", o["fault"][1], 21, rng.choice([5, 11, 116])]
        elif o["op"] in ("write", "flush", "pcap_write"):
            o["fault"] = ["W", rng.weighted([(75, 1), (25, 2)]), rng.weighted([(30, 2), (25, 7), (12, 1), (13, 3), (10, 6), (10, 9)]), rng.choice([1, 3, 100, 4096, 8000])]
            if rng.chance(20):
                o["fault"] = ["W", o["fault"][1], 20, rng.choice(WRITE_ERRNOS)]
        else:
            continue
        placed += 1
    return {"fix": fix, "stdin": stdin, "ops": ops, "rseed": rng.u64() >> 8}


def generate(rng, tier, idx):
    cases = systematic()
    if idx < len(cases):
        return dict(cases[idx])
    return gen_random(rng, deep=(tier == "thorough"))


# ---------------------------------------------------------------------------
# rendering

def render(model):
    files, dirs, info = fixtures(model["fix"])
    paths = [[pid, "r", p] for p, pid in PATH_IDS.items() if p not in (DIR, NOTDIR, MISSING, NODIR)]
    # LONG and LOOP fall under the watched root with the generic target id
    for i in range(8):
        paths.append([20 + i, "r", fresh_path(i)])
    # DIR/NOTDIR/MISSING/NODIR fall under the watched root with the generic target id
    plan = {"root": "d/", "paths": paths, "stdin": "r", "stdout": True, "rseed": model["rseed"], "faults": []}
    lines = ['let pk = pcap_open("%s");' % PKP, "let pkts = pcap_read_all(pk);"]
    for k, op in enumerate(model["ops"]):
        lines.append("time();")
        f = op.get("fault")
        if f:
            plan["faults"].append([k + 1, f[0], -1, f[1], f[2], f[3]])
        o = op["op"]
        if o in ("open", "pcap_open"):
            lines.append('let %s = %s("%s", "%s");' % (op["var"], o, op["path"], op["mode"]))
            lines.append(script.obs_handle(k, op["var"]))
            continue
        if o == "pcap_stream":
            lines.append("let %s = pcap_stream(%s);" % (op["var"], op["which"]))
            lines.append(script.obs_handle(k, op["var"]))
            continue
        h = op["h"]
        pre = []
        if o == "read":
            call = "read(%s)" % h if op["n"] is None else "read(%s, %d)" % (h, op["n"])
            body = "let r = %s; %s" % (call, script.obs_bytes(k))
        elif o in ("read_line", "read_to_string"):
            body = "let r = %s(%s); %s" % (o, h, script.obs_str(k))
        elif o == "write" and op["data"]["t"] == "pkt":
            body = "let r = write(%s, pkts[%d]); %s" % (h, op["data"]["i"], script.obs_val(k))
        elif o == "write":
            expr = _wdata_expr(op["data"], k, pre)
            body = "%s let r = write(%s, %s); %s" % (" ".join(pre), h, expr, script.obs_val(k))
        elif o == "flush":
            body = "let r = flush(%s); %s" % (h, script.obs_val(k))
        elif o == "pcap_read_next":
            body = ('let r = pcap_read_next(%s); if is_error(r) { eprintln("#%d E {}", r); } else { if r == null { eprintln("#%d N"); } else '
                    '{ eprintln("#%d P {} {} {} {} {}", r.sec, r.usec, r.caplen, r.wirelen, len(r.payload)); } }' % (h, k, k, k))
        elif o == "pcap_read_all":
            call = "pcap_read_all(%s)" % h if op["n"] is None else "pcap_read_all(%s, %d)" % (h, op["n"])
            body = ('let r = %s; if is_error(r) { eprintln("#%d E {}", r); } else { eprintln("#%d L {}", len(r)); let i = 0; while i < len(r) '
                    '{ let q = r[i]; eprintln("#%d P {} {} {} {} {}", q.sec, q.usec, q.caplen, q.wirelen, len(q.payload)); i = i + 1; } }' % (call, k, k, k))
        elif o == "pcap_write":
            body = "let r = pcap_write(%s, pkts[%d]); %s" % (h, op["pkt"], script.obs_val(k))
        else:
            raise ValueError(o)
        if h in ("stdin", "stdout"):
            lines.append(body)
        else:
            lines.append('if is_error(%s) { eprintln("#%d X"); } else { %s }' % (h, k, body))
    lines.append("time();")
    lines.append('eprintln("#9999 V DONE");')
    return {"argv": ["s.p2"], "script": "\n".join(lines) + "\n", "files": files, "dirs": dirs, "symlinks": SYMLINKS, "stdin": stdin_bytes(model, info), "plan": plan}


# ---------------------------------------------------------------------------
# oracle

def _viol(sig, msg):
    return {"sig": "C22:" + sig, "msg": msg}


def _hist(model, res):
    parts = [o["op"] + ("!" if o.get("fault") else "") for o in model["ops"]]
    for e in res.events:
        if e.call in ("R", "W", "O") and e.op > 0:
            if e.res < 0:
                cls = "e%d" % e.errno
            elif e.call == "R":
                cls = "eof" if e.res == 0 else ("s" if e.res < e.req else "f")
            else:
                cls = "s" if e.res < e.req else "f"
            parts.append("%s%d%s" % (e.call, e.target if e.target < 0 else min(e.target, 30), cls))
    return "|".join(parts)


def _rec_tuple(rec):
    d = pcapfmt.record_payload(rec)
    return (rec["sec"], rec["usec"], len(d), rec["wirelen"], len(d))


def check(model, results):
    res = results[0]
    viols = []
    stats = {}

    def inc(k, n=1):
        stats[k] = stats.get(k, 0) + n

    files, dirs, info = fixtures(model["fix"])
    obs, other = script.parse_obs(res.stderr)
    rterr = [l for l in other if "Runtime error" in l]
    panicked = script.panic_or_crash(res.stderr)
    stopped_at = None
    for k in range(len(model["ops"])):
        if k not in obs:
            stopped_at = k
            break
    if stopped_at is None:
        # the program got through every operation: process-level invariants
        if panicked:
            viols.append(_viol("process:panic", "panic: %r" % res.stderr[-400:]))
        if res.status[0] == "signal":
            viols.append(_viol("process:signal", "process ended by signal %d" % res.status[1]))
        elif res.status[1] != 0:
            viols.append(_viol("process:exit", "exit status %d; stderr tail %r" % (res.status[1], res.stderr[-300:])))
        if rterr:
            viols.append(_viol("process:runtime_error", "a runtime error ended the program: %r" % rterr[:2]))
        if 9999 not in obs:
            viols.append(_viol("process:notdone", "the program did not continue to DONE; stderr tail %r" % res.stderr[-300:]))
    other2 = [l for l in other if "Runtime error" not in l and "panicked" not in l and "RUST_BACKTRACE" not in l and not l.startswith("failed printing") and not l.startswith("Failed to flush")]
    if other2:
        viols.append(_viol("process:stderr", "unexpected stderr lines: %r" % other2[:3]))

    ev_by_op = {}
    for e in res.events:
        ev_by_op.setdefault(e.op, []).append(e)

    stdin_data = stdin_bytes(model, info)
    # variable state
    st = {
        "stdin": {"kind": "stdin", "data": stdin_data, "cur": 0, "dist": False, "ok": True},
        "stdout": {"kind": "stdout", "dist": False, "ok": True},
    }
    file_state = dict(files)   # path -> expected bytes (None = unknown)
    nontrivial = False
    handed_stdout = 0       # bytes the program was told it had written to stdout (successful operations only)
    delivered_stdout = 0    # bytes the OS accepted on descriptor 1 so far (recorded history)
    stdout_unknown = False
    prev_fault_fired = False
    faults_fired = 0
    stopped = False

    for k, op in enumerate(model["ops"]):
        o = op["op"]
        inc("ops." + o)
        evs = ev_by_op.get(k + 1, [])
        errs = [e for e in evs if e.res < 0 and e.errno != EINTR]
        eintr = [e for e in evs if e.res < 0 and e.errno == EINTR]
        shorts = [e for e in evs if e.action in (7, 9) and e.res >= 0]
        injected = [e for e in evs if e.action not in (0, 100)]
        for e in injected:
            inc("fired." + ACTION_NAMES.get(e.action, str(e.action)))
        if injected:
            faults_fired += 1
            if faults_fired == 2:
                inc("probe.second_fault")
        for e in errs:
            if e.action == 0:
                inc({2: "probe.real_enoent", 21: "probe.real_eisdir", 17: "probe.real_eexist", 20: "probe.real_enotdir", 28: "probe.real_enospc",
                     36: "probe.real_enametoolong", 40: "probe.real_eloop", 5: "probe.real_eio"}.get(e.errno, "real.errno%d" % e.errno))
        if errs or eintr or shorts:
            nontrivial = True
        delivered_stdout += sum(e.res for e in evs if e.call == "W" and e.target == -3 and e.res > 0)
        ob = obs.get(k)
        if not ob:
            # the program stopped inside this operation
            how = "panic" if panicked else ("runtime_error" if rterr else ("signal%d" % res.status[1] if res.status[0] == "signal" else "exit%d" % res.status[1]))
            hk = st.get(op.get("h"), {}).get("kind", "") if op.get("h") else op.get("mode", op.get("which", ""))
            viols.append(_viol("%s:abort:%s:%s:%s" % (o, how, _cause(op, errs, injected), hk),
                               "op %d %s(%s) %s: the interpreter stopped (%s, status %r) instead of returning an error object; system calls that failed in this operation: %s; stderr tail %r" % (
                                   k, o, op.get("path", op.get("h", op.get("which"))), "with injected fault %s" % op["fault"] if op.get("fault") else "", how, res.status,
                                   _evdesc(errs) or "none", res.stderr[-250:])))
            stopped = True
            break
        tag, rest = ob[0]

        # ---- handle creators
        if o in ("open", "pcap_open", "pcap_stream"):
            var = op["var"]
            exp_ok, kind, extra = _expect_create(op, info, file_state, st)
            if injected and injected[0].call == "O":
                inc("probe.fault_on_open")
            if injected and injected[0].call == "R":
                inc("probe.fault_in_header_read")
            cls = _cause(op, errs, injected)
            if errs:
                must = "E"
            elif eintr:
                must = "any"
                inc("probe.eintr_retried")
            elif exp_ok is None:
                must = "any"   # the source was disturbed by an earlier failed operation
            else:
                must = "V" if exp_ok else "E"
                if not exp_ok and o != "open":
                    inc("probe.nonpcap")
            if must == "E" and tag != "E":
                viols.append(_viol("%s:noerror:%s" % (o, cls), "op %d %s(%s,%s): a system call failed (%s) but the result is not an error object: %s %r" % (
                    k, o, op.get("path", op.get("which")), op.get("mode"), _evdesc(errs), tag, rest[:80])))
            elif must == "V" and tag != "V":
                viols.append(_viol("%s:error:%s" % (o, cls), "op %d %s(%s,%s): nothing failed but the result is %s %r" % (k, o, op.get("path", op.get("which")), op.get("mode"), tag, rest[:80])))
            s = {"kind": kind if tag == "V" else "err", "ok": tag == "V", "dist": bool(errs or eintr) or exp_ok is None or (tag == "V") != exp_ok}
            s.update(extra)
            if tag == "V" and o == "pcap_stream" and op["which"] == "stdout":
                handed_stdout += 24
            if tag != "V" and o == "pcap_stream" and op["which"] == "stdin":
                st["stdin"]["dist"] = True
            if tag == "V" and o == "pcap_stream" and op["which"] == "stdin":
                s["shared"] = "stdin"
            # effect on the file system of a successful w/a/x open
            if tag == "V" and kind in ("writer", "pcapw", "fullwriter") and op.get("path", "").startswith("d/"):
                p = op["path"]
                prior = file_state.get(p, b"")
                if op["mode"] == "a":
                    s["base"] = prior
                else:
                    s["base"] = b""
                s["written"] = pcapfmt.global_header(pcapfmt.default_header()) if o == "pcap_open" else b""
                s["path"] = p
                if prior is None:
                    s["written"] = None   # a second writer on the same path: interleaving unspecified
                for other_s in st.values():
                    if other_s.get("path") == p:
                        other_s["written"] = None
                    if other_s.get("srcpath") == p:
                        other_s["dist"] = True   # the file under a reader was truncated / changed
                file_state[p] = None
            st[var] = s
            continue

        # ---- users
        h = op["h"]
        s = st.get(h)
        if s is None:
            continue
        if tag == "X":
            if s["ok"]:
                viols.append(_viol("%s:guard" % o, "op %d skipped although handle %s was good" % (k, h)))
            continue
        if not s["ok"]:
            continue
        target_kind = s["kind"]
        if injected:
            if target_kind == "stdin" or s.get("shared") == "stdin":
                inc("probe.fault_on_stdin")
            if target_kind == "stdout" or s.get("stdout"):
                inc("probe.fault_on_stdout")
            if o == "flush":
                inc("probe.fault_in_flush")
            if o in ("pcap_read_next", "pcap_read_all"):
                inc("probe.fault_in_record_read")
            if o == "write" and _data_len(op["data"]) >= 8192:
                inc("probe.fault_in_direct_write")
            elif o == "write":
                inc("probe.fault_on_overflow")
        if prev_fault_fired and not (errs or eintr or shorts) and tag != "E":
            inc("probe.op_after_fault_ok")
        prev_fault_fired = bool(injected)
        cls = _cause(op, errs, injected) + ":" + target_kind
        if any(e.action == 21 for e in evs):
            # the source is broken from now on (for a pcap handle on stdin: stdin itself)
            s["broken"] = True
            if s.get("shared") == "stdin" or h == "stdin":
                st["stdin"]["broken"] = True
                for o2 in st.values():
                    if o2.get("shared") == "stdin":
                        o2["broken"] = True
        if s.get("broken") and o in ("read", "read_line", "read_to_string", "pcap_read_next", "pcap_read_all") and not (o == "read" and op.get("n") == 0) \
                and not (o == "pcap_read_all" and op.get("n") == 0):
            inc("probe.read_on_broken_source")
            if tag != "E":
                viols.append(_viol("%s:noerror:broken_source:%s" % (o, target_kind), "op %d %s on %s: the source has been failing persistently since an earlier operation, but the result is %s %r (a failing source must not look like end of input)" % (
                    k, o, h, tag, rest[:60])))
            s["dist"] = True
            continue
        # durability of stdout: an acknowledged flush(stdout) means everything handed over before has reached the OS
        is_stdout = (h == "stdout") or bool(s.get("stdout"))
        if is_stdout and tag != "E":
            if o == "write":
                d0 = _data_bytes(op["data"], info)
                handed_stdout += len(d0) if op["data"]["t"] in ("str", "pkt") else sum(1 if b < 128 else 2 for b in d0)
            elif o == "pcap_write":
                handed_stdout += len(pcapfmt.record_bytes(info["pk"][op["pkt"]]))
            elif o == "flush" and tag == "V" and rest == "null" and not stdout_unknown:
                inc("probe.flush_stdout_acknowledged")
                if delivered_stdout < handed_stdout:
                    viols.append(_viol("flush:acknowledged_but_not_delivered:stdout", "op %d flush(stdout) returned null although only %d of the %d bytes handed to stdout so far have been accepted by the OS (a failing stdout must make flush return an error object)" % (
                        k, delivered_stdout, handed_stdout)))
        elif is_stdout and tag == "E":
            stdout_unknown = True   # after a failed operation the amount actually queued is unspecified
        exp = _expect_use(op, s, info)   # fault-free expectation (also advances the model)
        if target_kind == "procreader" and any(e.call == "R" and e.res >= 0 for e in evs):
            exp = ("?",)
        was_dist = s["dist"]
        if errs:
            if tag != "E":
                # a partial write may legitimately be reported as a short count
                if o == "write" and shorts and tag == "V" and _is_short_count(rest, op):
                    s["dist"] = True
                    continue
                viols.append(_viol("%s:noerror:%s" % (o, cls), "op %d %s on %s: a system call failed (%s) but the result is not an error object: %s %r" % (
                    k, o, h, _evdesc(errs), tag, rest[:80])))
            s["dist"] = True
            _mark_unknown(s, file_state)
            continue
        if eintr or shorts:
            inc("probe.eintr_retried" if eintr else "fired.short_ok")
            if tag == "E":
                s["dist"] = True
                _mark_unknown(s, file_state)
                continue
            if o == "write" and tag == "V" and shorts and _is_short_count(rest, op):
                s["dist"] = True
                _mark_unknown(s, file_state)
                continue
            # otherwise it must be the correct value: fall through to the exact comparison
        if was_dist:
            # position unspecified: only the type is checked
            if tag == "E":
                continue
            if exp is not None and exp[0] not in ("E", "?") and tag != exp[0] and not (exp[0] in ("P", "N") and tag in ("P", "N")):
                viols.append(_viol("%s:type:disturbed" % o, "op %d %s on a disturbed handle returned tag %s" % (k, o, tag)))
            continue
        if exp is None:
            continue
        _compare(k, op, exp, ob, viols, cls)

    # a failed open must not have touched the file behind a trailing-separator path
    if not stopped and any(o.get("path") in (NOTDIR_SLASH, NOTDIR_DOT) for o in model["ops"]):
        if not any(o.get("path") == SMALL and o.get("mode") in ("w", "a", "x") for o in model["ops"]) and res.files.get(SMALL) != files[SMALL]:
            viols.append(_viol("file:touched_through_bad_path", "%s changed although every open of %s/%s must fail with ENOTDIR" % (SMALL, NOTDIR_SLASH, NOTDIR_DOT)))
    # files written through undisturbed handles must contain exactly what was reported written
    for var, s in st.items():
        if stopped:
            break
        if s.get("path") and s["ok"] and not s["dist"] and s.get("written") is not None:
            got = res.files.get(s["path"])
            want = s["base"] + s["written"]
            if got != want:
                viols.append(_viol("file:content", "%s: expected %d bytes, found %s" % (s["path"], len(want), "nothing" if got is None else "%d bytes" % len(got))))
    return {"violations": viols, "stats": stats, "hist": _hist(model, res), "nontrivial": nontrivial, "ops": len(model["ops"])}


def _evdesc(errs):
    return ", ".join("%s(2) errno %d%s" % ({"R": "read", "W": "write", "O": "open"}.get(e.call, e.call), e.errno, " injected" if e.action else " real") for e in errs[:3])


def _cause(op, errs, injected):
    if injected:
        if injected[0].action == 20:
            return "errno%d" % injected[0].errno
        return ACTION_NAMES.get(injected[0].action, "inj")
    if errs:
        return "errno%d" % errs[0].errno
    return "nofault"


def _is_short_count(rest, op):
    try:
        c = int(rest)
    except ValueError:
        return False
    return 0 <= c <= _data_len(op["data"])


def _mark_unknown(s, file_state):
    if s.get("path"):
        s["written"] = None


def _expect_create(op, info, file_state, st):
    """-> (expected_ok, kind, extra_state) under the fault-free model"""
    o = op["op"]
    if o == "pcap_stream":
        if op["which"] == "stdout":
            return True, "pcapw", {"stdout": True, "written": None}
        sd = st["stdin"]
        data = sd["data"][sd["cur"]:]
        hdr, recs, _ = pcapfmt.parse(data)
        ok = hdr is not None and hdr["magic"] in (pcapfmt.MAGIC_US, pcapfmt.MAGIC_NS) and not sd["dist"]
        sd["cur"] += min(24, len(data))
        if sd["dist"]:
            return None, "pcapr", {"recs": None, "i": 0, "dist": True}
        return ok, "pcapr", {"recs": [(r[0], r[1], r[2], r[3], r[2]) for r in recs], "i": 0}
    path, mode = op["path"], op["mode"]
    exists = path in file_state or path in (DIR, FULL, LOOP)
    if mode == "r":
        if path in (MISSING, NOTDIR, NODIR, LONG, LOOP, NOTDIR_SLASH, NOTDIR_DOT) or (path not in file_state and path not in (DIR, PROCMEM, PROCDIR)):
            return False, "err", {}
        if o == "open":
            if path in (PROCMEM, PROCDIR):
                # reads of /proc/self/mem at offset 0 fail with EIO on Linux: every read must give an
                # error object (if a kernel ever let such a read succeed, the recorded history shows it
                # and the operation is then not judged)
                return True, "procreader", {}
            if path == DIR:
                return True, "dirreader", {}
            if file_state[path] is None:
                return True, "reader", {"data": None, "cur": 0, "dist": True, "srcpath": path}
            return True, "reader", {"data": file_state[path], "cur": 0, "srcpath": path}
        if path in (DIR, PROCMEM, PROCDIR):
            return False, "err", {}
        data = file_state[path]
        if data is None:
            return None, "pcapr", {"recs": None, "i": 0, "dist": True, "srcpath": path}
        hdr, recs, _ = pcapfmt.parse(data)
        ok = hdr is not None and hdr["magic"] in (pcapfmt.MAGIC_US, pcapfmt.MAGIC_NS)
        return ok, "pcapr", {"recs": [(r[0], r[1], r[2], r[3], r[2]) for r in recs], "i": 0, "srcpath": path}
    # writers
    if path in (DIR, NOTDIR, NODIR, LONG, LOOP, NOTDIR_SLASH, NOTDIR_DOT):
        return False, "err", {}
    if mode == "x" and exists:
        return False, "err", {}
    if path == FULL:
        return True, ("fullwriter" if o == "open" else "pcapw"), {"full": True}
    return True, ("writer" if o == "open" else "pcapw"), {}


def _expect_use(op, s, info):
    """Fault-free expectation for an operation on handle state s; advances the model."""
    o = op["op"]
    kind = s["kind"]
    if kind in ("dirreader", "procreader"):
        if o == "read" and op["n"] == 0:
            return ("A", b"")   # read(h, 0) never touches the descriptor
        return ("E",)
    if o in ("read", "read_line", "read_to_string"):
        if s.get("data") is None or s.get("dist"):
            return ("?",)
        data, cur = s["data"], s["cur"]
        if o == "read":
            n = op["n"]
            exp = data[cur:] if n is None else data[cur:cur + n]
            s["cur"] = cur + len(exp)
            return ("A", exp)
        if o == "read_line":
            j = data.find(b"\n", cur)
            exp = data[cur:] if j < 0 else data[cur:j + 1]
        else:
            exp = data[cur:]
        s["cur"] = cur + len(exp)
        try:
            exp.decode("utf-8")
        except UnicodeDecodeError:
            s["dist"] = True
            return ("E",)
        return ("S", exp)
    if o == "write":
        d = _data_bytes(op["data"], info)
        if s.get("written") is not None:
            s["written"] = s["written"] + d
        return ("V", str(len(d)))
    if o == "flush":
        return ("V", "null")
    if o == "pcap_write":
        rec = info["pk"][op["pkt"]]
        b = pcapfmt.record_bytes(rec)
        if s.get("written") is not None:
            s["written"] = s["written"] + b
        return ("V", str(len(b)))
    if o == "pcap_read_next":
        if s.get("recs") is None:
            return ("?",)
        if s["i"] < len(s["recs"]):
            r = s["recs"][s["i"]]
            s["i"] += 1
            return ("P", [r])
        return ("N",)
    if o == "pcap_read_all":
        if s.get("recs") is None:
            return ("?",)
        n = op["n"]
        rem = s["recs"][s["i"]:]
        take = rem if n is None else rem[:n]
        s["i"] += len(take)
        return ("L", take)
    return None


def _compare(k, op, exp, ob, viols, cls):
    o = op["op"]
    tag, rest = ob[0]
    if exp[0] == "?":
        return
    if exp[0] == "E":
        if tag != "E":
            viols.append(_viol("%s:noerror:%s" % (o, cls), "op %d %s: expected an error object, got %s %r" % (k, o, tag, rest[:80])))
        return
    if tag == "E":
        viols.append(_viol("%s:error:%s" % (o, cls), "op %d %s: no system call failed but the result is an error object %r" % (k, o, rest[:100])))
        return
    if exp[0] in ("A", "S"):
        if tag != exp[0]:
            viols.append(_viol("%s:type:%s" % (o, cls), "op %d %s: tag %s, expected %s" % (k, o, tag, exp[0])))
            return
        try:
            n, got = script.decode_data(tag, rest)
        except ValueError as e:
            viols.append(_viol("%s:garbled" % o, "op %d: %s" % (k, e)))
            return
        if got != exp[1]:
            viols.append(_viol("%s:data:%s" % (o, cls), "op %d %s: expected %d bytes, got %d" % (k, o, len(exp[1]), len(got))))
        return
    if exp[0] == "V":
        if tag != "V" or rest != exp[1]:
            viols.append(_viol("%s:value:%s" % (o, cls), "op %d %s: expected %r, got %s %r" % (k, o, exp[1], tag, rest[:60])))
        return
    if exp[0] == "N":
        if tag != "N":
            viols.append(_viol("%s:notnull:%s" % (o, cls), "op %d %s: expected null at end of file, got %s %r" % (k, o, tag, rest[:60])))
        return
    if exp[0] in ("P", "L"):
        recs = exp[1]
        lines = ob
        if exp[0] == "L":
            if tag != "L" or rest != str(len(recs)):
                viols.append(_viol("%s:count:%s" % (o, cls), "op %d %s: expected %d packets, got %s %r" % (k, o, len(recs), tag, rest[:40])))
                return
            lines = ob[1:]
        got = []
        for t, r in lines:
            if t == "P":
                try:
                    got.append(tuple(int(x) for x in r.split(" ")))
                except ValueError:
                    got.append(None)
        if got != [tuple(r) for r in recs]:
            viols.append(_viol("%s:records:%s" % (o, cls), "op %d %s: expected records %r, got %r" % (k, o, recs[:3], got[:3])))


# ---------------------------------------------------------------------------

def shrink(model):
    ops = model["ops"]
    n = len(ops)
    # drop operations (keep handle creators that later operations depend on)
    for i in range(n - 1, -1, -1):
        o = ops[i]
        if "var" in o and any(x.get("h") == o["var"] for x in ops[i + 1:]):
            continue
        c = dict(model, ops=ops[:i] + ops[i + 1:])
        if c["ops"]:
            yield c
    # drop faults / simplify them
    for i, o in enumerate(ops):
        if o.get("fault"):
            no = dict(o)
            del no["fault"]
            yield dict(model, ops=ops[:i] + [no] + ops[i + 1:])
            f = o["fault"]
            if f[1] > 1:
                yield dict(model, ops=ops[:i] + [dict(o, fault=[f[0], 1, f[2], f[3]])] + ops[i + 1:])
    fx = model["fix"]
    for key, small in (("good_n", 100), ("small_n", 1), ("nrec", 1), ("linemax", 20)):
        if fx.get(key, small) > small:
            yield dict(model, fix=dict(fx, **{key: small}))
    if model["stdin"] != "empty":
        yield dict(model, stdin="empty")


def sample(model, results):
    res = results[0]
    conc = render(model)
    from sim.runner import plan_text
    return {
        "note": model.get("note", "random sequence"),
        "ops": model["ops"],
        "stdin_kind": model["stdin"],
        "script_head": conc["script"][:1500],
        "plan": plan_text(conc["plan"])[-400:],
        "status": list(res.status),
        "history_head": res.trace[:1500],
        "stderr_head": res.stderr[:500].decode("utf-8", "replace"),
    }
