"""C23 -- REPL lines accumulate state like one program; rejected lines have no effect.

What is simulated: a long-lived stateful session (symbol table, constant pool, globals carried
across lines by run_prompt) and *failed operations inside it* -- lines the parser rejects, lines
the compiler rejects (also after they defined names, also inside function bodies), lines that
stop at a runtime error.  The real REPL runs on a kernel pty under the simos shim (pinned
getrandom/clock).  Oracle: refinement against the property's own definition -- the same binary
in script mode running all previously accepted lines (each cut before its failing statement)
followed by the line.
"""
import re

from sim import repl, runner, script
from sim.prng import Rng

ID = "C23"
LEVEL = "exploration"
BUDGET = {
    "quick": {"runs": 550, "time_cap": 150, "determinism_sample": 12, "shrink_runs": 120, "min_runs": 120},
    "thorough": {"runs": 9000, "time_cap": 1500, "determinism_sample": 60, "shrink_runs": 300, "min_runs": 300},
}
BOUNDS = "quick: 1-12 (thorough: 1-20) generated lines per session (plus probe lines), <=3 statements per line, names from a pool of 8 variables (3 of them shadow builtin names) and 3 functions, lines < 250 characters"
RULE = ("each run = one REPL session: a seeded history of definitions, redefinitions, assignments, function definitions "
        "(closures, recursion), uses/prints, bare expressions and continued lines, with failing lines injected at seeded "
        "positions: parser-rejected, compiler-rejected (undefined name, after redefining live names, inside a function body, "
        "nested), and lines that stop at a runtime error after some statements ran; after every rejected line a probe line "
        "prints every live binding; every line's REPL output is compared with a script-mode reference process; same case iff the "
        "sequence of (line kind, output class) agrees; non-trivial iff the history contains at least one failing line followed "
        "by a line that uses earlier state")
ASSUMPTIONS = [
    "script mode of the same binary is the reference semantics (the property defines the expected output that way)",
    "accepted lines are referenced in -c mode, which echoes the program's last non-null value exactly like the REPL echoes a line's; the comparison is then exact (this relies on -c and script mode running a program the same way, C24)",
    "[line N] prefixes of diagnostics are normalised (the REPL numbers every entry from 1)",
    "generated failing statements are side-effect free up to their failure point, and later lines never use a name whose only definition lies at or after a failing statement",
    "maps with more than one entry are not printed (iteration order depends on how many hash maps the process created before)",
    "the terminal is a real kernel pty; no schedule or clock participates in this property",
    "search is seeded sampling, not exhaustive",
]
PROBES = [
    "probe.parse_reject", "probe.compile_reject", "probe.compile_reject_after_redefinition", "probe.compile_reject_in_fn_body",
    "probe.runtime_error_line", "probe.runtime_error_after_effects", "probe.continued_line",
    "probe.closure_call", "probe.recursion", "probe.echo_seen", "probe.use_after_reject", "probe.two_rejects_in_a_row",
    "probe.blank_entry", "probe.continued_line_closed_by_blank", "probe.comment_only_line", "probe.runtime_error_inside_call",
    "probe.function_literal_in_container", "probe.block_local_let", "probe.late_builtins", "probe.float_literal", "probe.same_body_other_arity", "probe.brace_char_literal", "probe.entry_starts_with_quit_name", "probe.comment_before_continuation", "probe.string_spans_continuation",
]
THOROUGH_ONLY_PROBES = ["probe.long_session"]
COMPONENTS = {
    "real": ["p2sh release binary (run_prompt loop, Prompt::show / dialoguer, parser, compiler state hand-over, VM)",
             "kernel pseudo-terminal", "script-mode reference processes of the same binary"],
    "simulated": ["getrandom (HashMap keys), CLOCK_REALTIME, thread id via the simos shim", "failed operations inside the session (generated failing lines)"],
    "stub": [],
}

# "first", "last", "time" shadow builtin functions that the generator itself never calls
# "quitx" starts like the REPL's quit command (an entry may begin with it: `quitx = ...`)
VARS = ["a", "b", "c", "d", "e", "first", "last", "time", "quitx"]
FUNS = ["f", "g", "h"]
UNDEF = ["zzz", "yyy", "undef1", "nope"]
MARK = "@@MARK@@"
LINE_RE = re.compile(r"\[line \d+\]")
DIAG_RE = re.compile(r"^(\[line (\d+|N)\] .+|\d+ parse errors)$")


# ---------------------------------------------------------------------------
# generation (environment model: which names are live and of which kind)

def _iexpr(rng, env, depth=2, extra=None):
    ints = [n for n, k in env.items() if k == "int"] + (extra or [])
    funs = [n for n, k in env.items() if k == "fn"]
    farrs = [n for n, k in env.items() if k == "fnarr"]
    fmaps = [n for n, k in env.items() if k == "fnmap"]
    funs2 = [n for n, k in env.items() if k == "fn2"]
    if depth <= 0 or rng.chance(40):
        k = rng.weighted([(40, "c"), (45 if ints else 0, "v"), (15 if funs else 0, "call"), (10 if farrs else 0, "acall"), (10 if fmaps else 0, "mcall"),
                          (10 if funs2 else 0, "call2")])
        if k == "call2":
            return "%s(%s, 1)" % (rng.choice(funs2), _iexpr(rng, env, 0, extra))
        if k == "c":
            return str(rng.choice([0, 1, 2, 3, 5, 7, 10, 42, 100]))
        if k == "v":
            return rng.choice(ints)
        if k == "acall":
            return "%s[%d](%s)" % (rng.choice(farrs), rng.below(2), _iexpr(rng, env, 0, extra))
        if k == "mcall":
            return '%s["k"](%s)' % (rng.choice(fmaps), _iexpr(rng, env, 0, extra))
        return "%s(%s)" % (rng.choice(funs), _iexpr(rng, env, 0, extra))
    op = rng.choice(["+", "-", "*", "%"])
    if op == "%":
        return "(%s %% %d)" % (_iexpr(rng, env, depth - 1, extra), rng.choice([2, 3, 7, 10]))
    if op == "*":
        return "(%s * %d)" % (_iexpr(rng, env, depth - 1, extra), rng.choice([2, 3]))
    return "(%s %s %s)" % (_iexpr(rng, env, depth - 1, extra), op, _iexpr(rng, env, depth - 1, extra))


def _bexpr(rng, env, extra=None):
    return "%s %s %s" % (_iexpr(rng, env, 1, extra), rng.choice(["<", ">", "==", "!=", "<=", ">="]), _iexpr(rng, env, 1, extra))


def _ok_stmt(rng, env, stats):
    """-> (text, effect) where effect is a list of (name, kind) definitions applied to env"""
    ints = [n for n, k in env.items() if k == "int"]
    strs = [n for n, k in env.items() if k == "str"]
    arrs = [n for n, k in env.items() if k == "arr"]
    funs0 = [n for n, kk in env.items() if kk == "fn"]
    k = rng.weighted([
        (22, "let"), (10 if ints else 0, "assign"), (12, "fn"), (20, "print"), (6, "str"), (6, "arr"),
        (6, "if"), (5, "letif"), (4, "rec"), (5 if arrs else 0, "arrop"), (4, "loop"), (3, "map"),
        (4, "fnarr"), (3, "fnmap"), (3, "fnif"), (4 if funs0 else 0, "fnassign"), (6, "blocklet"), (9, "builtin"),
        (6, "floatlit"), (9, "arity"),
    ])
    if k == "floatlit":
        # float literals whose value equals an integer literal used elsewhere in the session (2 vs 2.0):
        # the two are different constants
        c = rng.choice([2, 3, 5, 7, 10])
        return rng.choice(["puts(%d / %d.0);" % (c + 5, c), "puts(%d.0 * 3);" % c, "puts([10, 20, 30, 40, 50, 60, 70, 80, 90, 100, 110][%d]);" % c,
                           "puts(%d / %d);" % (c + 5, c), "puts(%d.0 == %d);" % (c, c)]), []
    if k == "arity":
        # functions with identical bodies but different parameter lists
        # (literal-free bodies from a tiny set, so that equal code with another arity recurs across lines)
        f1 = rng.choice(FUNS)
        body = rng.choice(["n + n", "n * n", "(n - n) + n"])
        if rng.chance(50):
            return "let %s = fn(n, m) { %s };" % (f1, body), [(f1, "fn2")]
        return "let %s = fn(n) { %s };" % (f1, body), [(f1, "fn")]
    if k == "builtin":
        # builtins from the whole table (the REPL registers them itself, separately from scripts)
        e1 = _iexpr(rng, env, 1)
        t = rng.choice([
            "puts(sort([3, %s, 1]));" % e1, 'puts(join(chars("abc"), "-"));', "puts(is_error(%s));" % e1, 'puts(toupper("abc") + str(%s));' % e1,
            'puts(int("42") + %s);' % e1, "puts(strerror(2));", "puts(rest([1, %s, 3]));" % e1, 'puts(tolower("ABC"));', "puts(char(65));",
            'puts(len(encode_utf8("xyz")));', 'puts(decode_utf8(encode_utf8("ok")));', "puts(round(2.567, 1));", 'puts(contains(map {"k": 1}, "k"));',
            'puts(get([5, 6], 1));', "puts(pop([1, 2, %s]));" % e1,
            # character literals that look like block / string delimiters to a naive line scanner
            "let lb = '{'; puts(lb);", "puts('}');", "let dq = '\"'; puts(dq);", "puts('{'); puts(%s);" % e1, 'puts(format("{}-{}", %s, 7));' % e1, "puts(float(3) + 0.5);", "puts(byte(66));",
            "puts(is_error(open(\"/nonexistent/zz\")));",
        ])
        if rng.chance(35):
            f = rng.choice(FUNS)
            e2 = _iexpr(rng, dict((n, kk) for n, kk in env.items() if n != f), 1)   # (no accidental self-recursion)
            return "let %s = fn(n) { len(sort([n, 1, %s])) + len(chars(str(n))) };" % (f, e2), [(f, "fn")]
        return t, []
    if k == "blocklet":
        # a `let` inside a block: local to the block, even when it reuses the name of a live top-level binding
        # (p2sh keeps such a binding visible to later blocks of the same depth, in scripts and at the REPL alike;
        # only integer names are rebound so that this quirk can change values but never types)
        cands = [n for n in VARS if env.get(n) in (None, "int")]
        if not cands:
            return "puts(%s);" % _iexpr(rng, env), []
        v = rng.choice(cands)
        envx = dict((n, kk) for n, kk in env.items() if n != v)
        return "if %s { let %s = %s; puts(%s); } else { puts(0); };" % (rng.choice(["true", "1 < 2", "2 != 3"]), v, _iexpr(rng, envx, 1), v), []   # always taken: a skipped block-let would leak an unset binding
    # function literals that are not the direct value of a `let`: stored in arrays / maps, chosen by an
    # if-expression, or assigned to an existing name (their bodies refer to constants of this line)
    if k in ("fnarr", "fnmap", "fnif", "fnassign"):
        c1, c2 = rng.choice([3, 7, 11, 42]), rng.choice([2, 5, 9, 100])
        if k == "fnarr":
            v = rng.choice(VARS)
            return "let %s = [fn(n) { n + %d }, fn(n) { (n * %d) %% 1000 }];" % (v, c1, c2), [(v, "fnarr")]
        if k == "fnmap":
            v = rng.choice(VARS)
            return 'let %s = map {"k": fn(n) { (n + %d) * %d }};' % (v, c1, c2), [(v, "fnmap")]
        if k == "fnif":
            f = rng.choice(FUNS)
            envx = dict((n, kk) for n, kk in env.items() if n != f)
            return "let %s = if %s { fn(n) { n + %d } } else { fn(n) { n - %d } };" % (f, _bexpr(rng, envx), c1, c2), [(f, "fn")]
        f = rng.choice(funs0)
        return "%s = fn(n) { (n %% 13) + %d };" % (f, c1), []
    if k in ("let", "arr", "letif", "map"):
        # `let v = ... v ...` reads the *new* (still null) binding in p2sh: never self-reference
        v = rng.choice(VARS)
        env = dict((n, kk) for n, kk in env.items() if n != v)
        if k == "let":
            return "let %s = %s;" % (v, _iexpr(rng, env)), [(v, "int")]
        if k == "arr":
            return "let %s = [%s, %s];" % (v, _iexpr(rng, env, 1), _iexpr(rng, env, 1)), [(v, "arr")]
        if k == "letif":
            return "let %s = if %s { %s } else { %s };" % (v, _bexpr(rng, env), _iexpr(rng, env, 1), _iexpr(rng, env, 1)), [(v, "int")]
        return 'let %s = len(map {"k": %s});' % (v, _iexpr(rng, env, 1)), [(v, "int")]
    if k == "assign":
        v = rng.choice(ints)
        return "%s = %s;" % (v, _iexpr(rng, env)), []
    if k == "fn":
        f = rng.choice(FUNS)
        body = _iexpr(rng, dict((n, kk) for n, kk in env.items() if n != f), 2, extra=["n"])
        return "let %s = fn(n) { %s };" % (f, body), [(f, "fn")]
    if k == "rec":
        f = rng.choice(FUNS)
        # recursion depth is bounded whatever the argument (the VM has a frame limit)
        return "let %s = fn(n) { if n < 2 { 1 } else { (n %% 7) + %s((n %% 5) - 1) } };" % (f, f), [(f, "fn")]
    if k == "print":
        how = rng.choice(["puts", "println", "eprintln"])
        if how == "puts":
            cands = [_iexpr(rng, env)] + strs + arrs   # (arrays / maps of functions are never printed: only called)
            return "puts(%s);" % rng.choice(cands), []
        n = rng.range(1, 2)
        return '%s("%s"%s);' % (how, " ".join(["{}"] * n), "".join(", " + _iexpr(rng, env) for _ in range(n))), []
    if k == "str":
        v = rng.choice(VARS)
        return 'let %s = "%s" + "%s";' % (v, rng.choice(["p2", "ab", "x y", ""]), rng.choice(["sh", "cd", "!"])), [(v, "str")]
    if k == "arrop":
        v = rng.choice(arrs)
        return rng.choice(["push(%s, %s);" % (v, _iexpr(rng, env, 1)), "puts(len(%s));" % v, "puts(%s[0]);" % v]), []
    if k == "if":
        return 'if %s { puts("T", %s); } else { puts("F"); };' % (_bexpr(rng, env), _iexpr(rng, env, 1)), []
    if k == "loop":
        v = rng.choice(VARS)
        return "let %s = 0; while %s < %d { %s = %s + 1; } puts(%s);" % (v, v, rng.range(1, 4), v, v, v), [(v, "int")]
    raise AssertionError(k)


def _apply(env, eff):
    for n, k in eff:
        env[n] = k


def _probe_line(env):
    parts = []
    for n in sorted(env):
        k = env[n]
        if k == "fn2":
            parts.append("puts(%s(3, 4));" % n)
        elif k == "fnarr":
            parts.append("puts(%s[0](3)); puts(%s[1](3));" % (n, n))
        elif k == "fnmap":
            parts.append('puts(%s["k"](3));' % n)
        elif k == "fn":
            parts.append("puts(%s(3));" % n)
        else:
            parts.append("puts(%s);" % n)
    if not parts:
        parts = ['puts("empty");']
    return " ".join(parts)


def _gen_failing(rng, env, stats):
    """-> dict(kind, text, cut, dead) ; cut = text of the statements that run before the failure"""
    kind = rng.weighted([(30, "parse"), (45, "compile"), (25, "runtime")])
    ints = [n for n, k in env.items() if k == "int"]
    pre = []
    pre_eff = []
    tmp_env = dict(env)
    if rng.chance(55):
        for _ in range(rng.range(1, 2)):
            t, eff = _ok_stmt(rng, tmp_env, {})
            # prefix statements of a rejected line must not print (they never run) -- they may define
            pre.append(t)
            pre_eff += eff
            _apply(tmp_env, eff)
    if kind == "parse":
        bad = rng.choice(["let %s = ;" % rng.choice(VARS), "puts(%s" % (ints[0] if ints else "1"), "let = 5;", "1 +* 2;", "fn(", "let %s = fn(n) { n + };" % rng.choice(FUNS),
                          "if { };", ")", "let 5 = a;", "puts(1));"])
        return {"kind": "parse", "text": " ".join(pre + [bad]), "cut": None, "redef": False, "infn": False}
    if kind == "compile":
        u = rng.choice(UNDEF)
        form = rng.weighted([(30, "let"), (15, "use"), (25, "fnbody"), (10, "nested"), (10, "assign"), (10, "call"), (24, "blockdecl")])
        infn = False
        if form == "let":
            bad = "let %s = %s;" % (rng.choice(VARS), u)
        elif form == "use":
            bad = "puts(%s);" % u
        elif form == "fnbody":
            bad = "let %s = fn(x) { let q = 1; %s };" % (rng.choice(FUNS), u)
            infn = True
        elif form == "nested":
            bad = "let %s = fn(x) { fn(y) { x + y + %s } };" % (rng.choice(FUNS), u)
            infn = True
        elif form == "blockdecl":
            # the only declaration of the rejected line sits inside a block
            ints0 = [n for n, kk in env.items() if kk == "int"] or ["a"]
            bad = "if true { let %s = 100; puts(%s + %s); } else { };" % (rng.choice(ints0), ints0[0], u)
            pre, pre_eff = [], []
        elif form == "assign":
            bad = "%s = 5;" % u
        else:
            bad = "%s(1);" % u
        redef = any(n in env for n, _ in pre_eff)
        return {"kind": "compile", "text": " ".join(pre + [bad]), "cut": None, "redef": redef, "infn": infn, "defines": bool(pre_eff)}
    # runtime error: the prefix runs (and may print / define), then a side-effect-free failing statement
    funs = [n for n, k in tmp_env.items() if k == "fn"]   # (after the prefix statements of this very line)
    fail_forms = ["1 / 0;", "len(5);", "5(1);", '"a" - 1;', "let %s = 1 / 0;" % rng.choice(VARS), "[1][0](2);", "-len(5);",
                  # failures *inside* a called function (frames are live when the error is raised)
                  "(fn(n) { n / 0 })(1);", "(fn(n) { len(n) })(5);", "(fn(n) { (fn(m) { m / 0 })(n) })(2);"]
    if funs:
        fail_forms.append("%s(1, 2);" % funs[0])
    bad = rng.choice(fail_forms)
    dead = []
    m = re.match(r"let (\w+) =", bad)
    if m:
        dead.append(m.group(1))
    post = []
    if rng.chance(50):
        w = rng.choice(VARS)
        post.append(rng.choice(['puts("never");', "let %s = 5;" % w]))
        m2 = re.match(r"let (\w+) =", post[0])
        if m2:
            dead.append(m2.group(1))
    return {"kind": "runtime", "text": " ".join(pre + [bad] + post), "cut": " ".join(pre), "eff": pre_eff, "dead": dead, "effects": bool(pre)}


def generate(rng, tier, idx):
    env = {}
    lines = []     # logical lines: dict(kind, text, cut, phys=[physical lines])
    stats = {}
    n = rng.range(1, 20 if tier == "thorough" else 12)
    long_session = tier == "thorough" and rng.chance(4)
    if long_session:
        n = rng.range(40, 120)   # a long session: state carried over many lines; a sample of the lines is referenced
    nfail = 0
    for i in range(n):
        fail_p = 28 if i > 0 else 10
        if rng.chance(fail_p):
            f = _gen_failing(rng, env, stats)
            nfail += 1
            lines.append(f)
            if f["kind"] == "runtime":
                _apply(env, f["eff"])
                for d in f["dead"]:
                    env.pop(d, None)
            if rng.chance(30):
                # a second failing line right behind the first (no accepted line in between)
                f2 = _gen_failing(rng, env, stats)
                lines.append(f2)
                if f2["kind"] == "runtime":
                    _apply(env, f2["eff"])
                    for d in f2["dead"]:
                        env.pop(d, None)
            # a probe right after every failing line: every live binding must be unchanged
            if rng.chance(85):
                lines.append({"kind": "probe", "text": _probe_line(env), "cut": None})
            continue
        special = rng.weighted([(88, None), (4, "blank"), (5, "comment"), (3, "spaces")])
        if special == "blank":
            lines.append({"kind": "blank", "text": "", "cut": None})
            continue
        if special == "spaces":
            lines.append({"kind": "blank", "text": "   ", "cut": None})
            continue
        if special == "comment":
            lines.append({"kind": "ok", "text": rng.choice(["# just a comment", "// nothing to run here", "# let a = 99;"]), "cut": None})
            continue
        stmts = []
        for _ in range(rng.weighted([(50, 1), (35, 2), (15, 3)])):
            t, eff = _ok_stmt(rng, env, stats)
            stmts.append(t)
            _apply(env, eff)
        if rng.chance(20):
            stmts.append(_iexpr(rng, env))   # bare expression: the REPL echoes its value
        elif rng.chance(10):
            stmts.append(rng.choice([_bexpr(rng, env), "2 > 100", "1 == 1", "!true"]))   # ... also when it is false
        text = " ".join(stmts)
        ln = {"kind": "ok", "text": text, "cut": None}
        if rng.chance(12) and "{ " in text:
            # continued entry: break the logical line after a '{'
            p = text.index("{ ") + 1
            ln["text"] = text[:p] + "\n" + text[p + 1:]
        elif rng.chance(6):
            # continued entry that is finished by an empty physical line
            ln["text"] = text + " \n"
        elif rng.chance(7) and "; " in text and '"' not in text:
            # continued entry whose first physical line ends in a comment: the line break ends the comment
            p = text.index("; ") + 1
            ln["text"] = text[:p] + " // note" + "\n" + text[p + 1:]
        elif rng.chance(5):
            # a string literal that spans the continuation (it then contains the newline)
            # (a dedicated name, placed first, so that it can not collide with the statements of the line)
            ln["text"] = 'let sx = "ab\ncd"; puts(sx); ' + text
        lines.append(ln)
    if rng.chance(50) or long_session:
        lines.append({"kind": "probe", "text": _probe_line(env), "cut": None})
    model = {"lines": lines, "rseed": rng.u64() >> 8}
    if long_session:
        idxs = list(range(len(lines)))
        rng.shuffle(idxs)
        model["ref_lines"] = sorted(set(idxs[:12] + [len(lines) - 1]))
    return model


# ---------------------------------------------------------------------------
# execution: REPL session + one script-mode reference process per logical line

def physical(line_text):
    parts = line_text.split("\n")
    # the REPL strips exactly the trailing backslash and joins with a newline, so the logical text is reproduced
    # byte for byte (this matters when the break falls inside a string literal or after a // comment)
    return [p + "\\" for p in parts[:-1]] + [parts[-1]]


def reference_source(model, k):
    """script made of all previously accepted lines (cut before their failing statement), a marker, then line k"""
    prev = []
    for ln in model["lines"][:k]:
        if ln["kind"] == "blank":
            continue
        if ln["kind"] in ("ok", "probe"):
            prev.append(ln["text"])
        elif ln["kind"] == "runtime":
            if ln["cut"]:
                prev.append(ln["cut"])
    return "\n".join(prev + ['puts("%s");' % MARK, model["lines"][k]["text"]]) + "\n"


def execute(model, wd):
    phys = []
    owner = []
    for k, ln in enumerate(model["lines"]):
        for p in physical(ln["text"]):
            phys.append(p)
            owner.append(k)
    res, segs = repl.run_session(wd, phys, model["rseed"])
    res.segs_by_line = {}
    for i, s in enumerate(segs):
        res.segs_by_line[owner[i]] = res.segs_by_line.get(owner[i], "") + s
    results = [res]
    only = model.get("ref_lines")
    for k in range(len(model["lines"])):
        if only is not None and k not in only:
            results.append(None)   # long session: this line's output is not compared (its effects are, through later lines)
            continue
        results.append(runner.run_concrete(wd, reference_concrete(model, k), clean=False))
    return results


def reference_concrete(model, k):
    """Accepted lines are referenced in -c mode, which (like the REPL) echoes the program's last value, so the
    echo can be compared exactly; failing lines in script mode (-c echoes even after a runtime error, the REPL
    does not).  A blank entry needs no reference."""
    kind = model["lines"][k]["kind"]
    if kind == "blank":
        return {"argv": ["-c", ""], "script": None, "files": {}, "dirs": [], "stdin": None, "plan": {"rseed": model["rseed"]}, "merge_output": True}
    src = reference_source(model, k)
    if kind in ("ok", "probe"):
        return {"argv": ["-c", src], "script": None, "files": {}, "dirs": [], "stdin": None, "plan": {"rseed": model["rseed"]}, "merge_output": True}
    return {"argv": ["s.p2"], "script": src, "files": {}, "dirs": [], "stdin": None, "plan": {"rseed": model["rseed"]}, "merge_output": True}


def render(model):
    return [{"argv": [], "script": "\n".join(p for ln in model["lines"] for p in physical(ln["text"])) + "\n", "files": {}, "plan": {"rseed": model["rseed"]}}] + [
        (reference_concrete(model, k) if (model.get("ref_lines") is None or k in model["ref_lines"]) else None) for k in range(len(model["lines"]))]


# ---------------------------------------------------------------------------
# oracle

def _viol(sig, msg):
    return {"sig": "C23:" + sig, "msg": msg}


def _norm(s):
    return LINE_RE.sub("[line N]", s)


def check(model, results):
    res = results[0]
    viols = []
    stats = {}

    def inc(k, n=1):
        stats[k] = stats.get(k, 0) + n

    if getattr(res, "repl_error", None):
        viols.append(_viol("session:died", "the REPL session broke: %s" % res.repl_error[:400]))
    elif res.status != ("exit", 0):
        viols.append(_viol("session:status", "REPL ended with %r" % (res.status,)))
    lines = model["lines"]
    if model.get("ref_lines") is not None:
        inc("probe.long_session")
    last_reject = None
    classes = []
    nontrivial = False
    seen_fail = False
    for k, ln in enumerate(lines):
        kind = ln["kind"]
        ref = results[1 + k] if 1 + k < len(results) else None
        seg = getattr(res, "segs_by_line", {}).get(k)
        if kind == "parse":
            inc("probe.parse_reject")
        elif kind == "compile":
            inc("probe.compile_reject")
            if ln.get("redef"):
                inc("probe.compile_reject_after_redefinition")
            if ln.get("infn"):
                inc("probe.compile_reject_in_fn_body")
        elif kind == "runtime":
            inc("probe.runtime_error_line")
            if ln.get("effects"):
                inc("probe.runtime_error_after_effects")
        if "\n" in ln["text"]:
            inc("probe.continued_line")
        if kind in ("parse", "compile", "runtime") and k > 0 and lines[k - 1]["kind"] in ("parse", "compile", "runtime"):
            inc("probe.two_rejects_in_a_row")
        if re.search(r"\b[fgh]\(", ln["text"]) and kind in ("ok", "probe"):
            inc("probe.closure_call")
        if "fn(n) { if n < 2" in ln["text"]:
            inc("probe.recursion")
        if kind in ("ok", "probe") and ("](" in ln["text"]):
            inc("probe.function_literal_in_container")
        if "{ let " in ln["text"] and kind == "ok":
            inc("probe.block_local_let")
        if re.search(r"\d\.0", ln["text"]) and kind == "ok":
            inc("probe.float_literal")
        if "fn(n, m)" in ln["text"] and kind == "ok":
            inc("probe.same_body_other_arity")
        if re.search(r"'[{}\"]'", ln["text"]) and kind == "ok":
            inc("probe.brace_char_literal")
        if ln["text"].startswith("quitx") and kind == "ok":
            inc("probe.entry_starts_with_quit_name")
        if kind in ("ok", "probe") and re.search(r"\b(sort|chars|join|is_error|strerror|rest|pop|format|decode_utf8)\(", ln["text"]):
            inc("probe.late_builtins")
        if "// note\n" in ln["text"]:
            inc("probe.comment_before_continuation")
        if '"ab\ncd"' in ln["text"]:
            inc("probe.string_spans_continuation")
        inc("ops." + kind)
        if kind == "blank":
            inc("probe.blank_entry")
            if seg is None:
                viols.append(_viol("session:short", "no REPL output recorded for line %d" % k))
                break
            if seg != "":
                viols.append(_viol("blank_line:output", "line %d (blank entry): the REPL printed %r" % (k, seg[:200])))
            classes.append("b")
            continue
        if ln["text"].endswith("\n"):
            inc("probe.continued_line_closed_by_blank")
        if ln["text"].lstrip().startswith(("#", "//")):
            inc("probe.comment_only_line")
        if "(fn(n)" in ln["text"] and kind == "runtime":
            inc("probe.runtime_error_inside_call")
        if seg is not None and ref is None and model.get("ref_lines") is not None:
            classes.append("-")
            if kind in ("parse", "compile", "runtime"):
                last_reject = kind
                seen_fail = True
            else:
                last_reject = None
            continue
        if seg is None or ref is None:
            if not viols:
                viols.append(_viol("session:short", "no REPL output recorded for line %d" % k))
            break
        if ref.status != ("exit", 0) or script.panic_or_crash(ref.stdout):
            # (a crash of the non-interactive reference is not a statement about the REPL: the scenario is skipped)
            viols.append(_viol("generator:reference_crashed", "reference process for line %d: status %r, output tail %r" % (k, ref.status, ref.stdout[-200:])))
            break
        rout = ref.stdout.decode("utf-8", "replace")
        mark = MARK + "\n"
        ctx = "after_%s_reject" % last_reject if last_reject else "plain"
        got = _norm(seg)
        if kind in ("parse", "compile"):
            # the whole reference program is rejected: nothing runs, only the diagnostics appear
            want = _norm(rout)
            if mark in rout:
                viols.append(_viol("generator:%s_line_accepted" % kind, "line %d %r was meant to be rejected but the reference ran it" % (k, ln["text"])))
                break
            # the REPL must print diagnostics and nothing else (their exact wording may differ from
            # script mode: the parser's error recovery depends on what follows the line)
            glines = [l for l in got.split("\n") if l]
            okd = bool(glines) and all(DIAG_RE.match(l) for l in glines)
            if kind == "compile" and okd:
                okd = got == want
            if not okd:
                viols.append(_viol("%s_rejected:diagnostics" % kind, "line %d %r: REPL printed %r, script mode prints %r" % (k, ln["text"], got[:200], want[:200])))
            classes.append(kind[0] + ("=" if okd else "!"))
            last_reject = kind
            seen_fail = True
            continue
        if mark not in rout:
            # the reference rejected an accepted history: generator problem, or an earlier divergence
            viols.append(_viol("generator:reference_rejected", "reference for line %d %r did not run: %r" % (k, ln["text"], rout[:300])))
            break
        want = _norm(rout.split(mark, 1)[1])
        if kind == "runtime":
            if "Runtime error" not in want:
                viols.append(_viol("generator:no_runtime_error", "line %d %r was meant to fail at run time; reference printed %r" % (k, ln["text"], want[:200])))
                break
            ok = got == want
            if not ok:
                viols.append(_viol("runtime_line:output", "line %d %r (%s): REPL printed %r, script mode prints %r" % (k, ln["text"], ctx, got[:300], want[:300])))
            classes.append("r" + ("=" if ok else "!"))
            last_reject = "runtime"
            seen_fail = True
            continue
        # accepted line: exact, including the echo of the line's last value (the -c reference echoes it too)
        if seen_fail:
            nontrivial = True
            inc("probe.use_after_reject")
        ok = got == want
        if ok and want and not ln["text"].rstrip().endswith(";") and "\n" not in ln["text"]:
            inc("probe.echo_seen")
        if not ok:
            viols.append(_viol("%s_line:output" % ("probe" if kind == "probe" else "accepted"),
                               "line %d %r (%s): REPL printed %r, a script of the accepted history prints %r; history so far: %r" % (
                                   k, ln["text"], ctx, got[:300], want[:300], [l["text"] for l in lines[:k]][-4:])))
        classes.append(("p" if kind == "probe" else "a") + ("=" if ok else "!"))
        last_reject = None
    hist = "".join(classes) + "|" + ",".join(l["kind"][0] + str(min(len(l["text"]) // 40, 4)) for l in lines)
    return {"violations": viols, "stats": stats, "hist": hist, "nontrivial": nontrivial, "ops": len(lines)}


# ---------------------------------------------------------------------------

def shrink(model):
    if model.get("ref_lines") is not None:
        # first make it an ordinary session (every line referenced), then shrink as usual
        m2 = dict(model)
        del m2["ref_lines"]
        yield m2
        return
    lines = model["lines"]
    n = len(lines)
    if n > 1:
        for i in range(n):
            yield dict(model, lines=lines[:i] + lines[i + 1:])
        yield dict(model, lines=lines[: n // 2 + 1])
    for i, ln in enumerate(lines):
        if ln["kind"] in ("ok",) and ln["text"].count(";") > 1 and "\n" not in ln["text"] and "{" not in ln["text"]:
            parts = [p.strip() + ";" for p in ln["text"].split(";") if p.strip()]
            for j in range(len(parts)):
                t = " ".join(parts[:j] + parts[j + 1:])
                if t:
                    yield dict(model, lines=lines[:i] + [dict(ln, text=t)] + lines[i + 1:])
        if "\n" in ln["text"]:
            yield dict(model, lines=lines[:i] + [dict(ln, text=ln["text"].replace("\n", " "))] + lines[i + 1:])


def sample(model, results):
    res = results[0]
    return {
        "lines": [{"kind": l["kind"], "text": l["text"]} for l in model["lines"]],
        "repl_output_per_line": [getattr(res, "segs_by_line", {}).get(k) for k in range(len(model["lines"]))],
        "reference_script_for_last_line": reference_source(model, len(model["lines"]) - 1),
        "status": list(res.status),
    }
