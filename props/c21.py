"""C21 -- file reads return the bytes exactly once, in order, however chunked; writes land.

Simulated dimensions: read(2) transfer-size schedules on pipe-like sources and stdin (S1),
std's BufReader window phase on regular files, the way the process ends while BufWriter
buffers are dirty (normal end, runtime error, exit(n), SIGKILL at a chosen system call) (S3).
Oracles: a cursor over a byte string per read handle; path -> bytes with the four open modes.
"""
from sim import content, script
from sim.prng import Rng

ID = "C21"
LEVEL = "exploration"
BUDGET = {
    "quick": {"runs": 5000, "time_cap": 150, "determinism_sample": 40, "shrink_runs": 300},
    "thorough": {"runs": 90000, "time_cap": 1500, "determinism_sample": 300, "shrink_runs": 600},
}
BOUNDS = "quick: <=3 handles per process, <=12 operations per handle (thorough: <=4 handles, <=25 operations), contents up to ~70 kB (sizes biased to 0, 1, 4096+-17, 8192+-17, 12288+-17, 16384+-17, 2-3 buffers), <=40 explicit chunk sizes (optionally cycled), one writer per path"
RULE = ("each run = one seeded scenario: 1-3 handles (regular file / pipe-like path / stdin, or writer paths with "
        "modes r,w,a,x on existing/missing files), an interleaved operation list, a read(2) chunk schedule for "
        "pipe-like descriptors and a way of ending (normal, runtime error, exit(n), SIGKILL at a chosen call); "
        "two runs are the same case iff their abstract history (operation kinds + per-call (call, descriptor kind, "
        "result class full/short/eof/error/killed)) is identical; a case is non-trivial iff at least one read(2) was "
        "shortened by the schedule, or a read spanned a BufReader refill, or a BufWriter overflowed/bypassed, or the "
        "process did not end by falling off the end")
ASSUMPTIONS = [
    "regular-file reads are never shortened by the simulator (Linux does not do that on local file systems)",
    "for a blocking reader a pipe writer's delays are observable only as transfer-size boundaries, so a chunk schedule covers 'chunk sizes and delays'",
    "data buffered but not flushed when exit(n) is called or the process is killed is not required to be on disk (statement: 'once flushed or closed at program end')",
    "read_line/read_to_string on content that is not valid UTF-8 must return an error object or the correct string; what the handle does afterwards is not asserted",
    "search is seeded sampling, not exhaustive: a clean batch is evidence, not proof",
]
PROBES = [
    "probe.read_spans_refill", "probe.chunk_inside_read", "probe.read_at_eof", "probe.multibyte_split",
    "probe.line_spans_chunk", "probe.bufwriter_overflow", "probe.big_write_bypass", "probe.kill_fired",
    "probe.kill_after_flush", "probe.append_existing", "probe.x_exists", "probe.a_missing", "probe.exit_unflushed",
    "probe.readback", "probe.stdin_and_file", "probe.two_handles_one_file", "probe.two_appenders_one_file", "probe.read_loop",
]

HUGE = 1 << 40


# ---------------------------------------------------------------------------
# generation

def _gen_content(rng, kind_bias=None):
    n = content.size_class(rng)
    if rng.chance(1, 150):
        return {"t": "pattern", "n": (1 << 20) + rng.choice([1, 4097, 70000]), "mul": 7, "add": 3, "seed": 0}
    t = rng.weighted([(60, "text"), (22, "binnl"), (12, "bin"), (6, "pattern")])
    spec = {"t": t, "n": n, "seed": rng.u64() >> 16}
    if t == "text":
        spec["linemax"] = rng.choice([5, 40, 120, 500, 5000, 20000])
        spec["multi"] = rng.choice([0, 5, 30, 90])
        spec["final_nl"] = 1 if rng.chance(50) else 0
        if rng.chance(10):
            spec["bom"] = 1
    return spec


def _is_text(spec):
    return spec["t"] == "text"


def gen_read(rng, tier):
    deep = tier == "thorough"
    nh = rng.weighted([(5, 1), (3, 2), (2, 3), (2 if deep else 0, 4)])
    handles = []
    have_stdin = False
    for i in range(nh):
        kind = rng.weighted([(30, "reg"), (40, "pipe"), (0 if have_stdin else 30, "stdin")])
        if kind == "stdin":
            have_stdin = True
        h = {"kind": kind, "content": _gen_content(rng)}
        # sometimes a second, independent handle on the same file (own cursor, own BufReader)
        prev = [j for j, x in enumerate(handles) if x["kind"] != "stdin" and "alias" not in x]
        if kind != "stdin" and prev and rng.chance(25):
            j = rng.choice(prev)
            h = {"kind": handles[j]["kind"], "content": handles[j]["content"], "alias": j}
        handles.append(h)
    datas = [content.expand(h["content"]) for h in handles]
    cursors = [0] * nh
    closed = [False] * nh  # no further ops generated (after a possibly-error op on binary data)
    counts = [rng.range(1, 25 if deep else 12) for _ in range(nh)]
    done = [0] * nh
    past_eof = [0] * nh
    ops = []
    pending = []
    for i, c in enumerate(counts):
        pending += [i] * c
    rng.shuffle(pending)
    for h in pending:
        if closed[h]:
            continue
        data = datas[h]
        rem = len(data) - cursors[h]
        kind = handles[h]["kind"]
        textual = _is_text(handles[h]["content"])
        done[h] += 1
        last = done[h] >= counts[h]
        if rem == 0 and len(data) > 0:
            # at most two operations past the end of input per handle
            past_eof[h] += 1
            if past_eof[h] > 2:
                closed[h] = True
                continue
        # consume-everything operations are mostly kept for the end of a handle's life so that
        # the other operations meet data, not end-of-input
        w_all = 30 if last else 5
        w_rts = 0 if kind == "stdin" else (25 if last else 3)
        opk = rng.weighted([(45, "read"), (w_all, "readall"), (30, "read_line"), (w_rts, "read_to_string"), (6 if rem > 0 else 0, "loop")])
        if opk == "loop":
            # drain the rest of the input with a loop of bounded reads (many calls on one handle)
            kk = rng.choice([1, 7, 100, 1000, 4096, 5000, 8192]) if rem <= 3000 else rng.choice([100, 1000, 4096, 5000, 8192, 9000])
            ops.append({"h": h, "op": "loop", "n": kk})
            cursors[h] = len(data)
        elif opk == "read":
            left_ops = max(1, counts[h] - done[h] + 1)
            n = rng.weighted([
                (3, 0), (8, 1), (14, rng.range(2, 100)), (8, rng.range(100, 4000)),
                (10, rng.choice([4095, 4096, 4097])), (10, rng.choice([8191, 8192, 8193])),
                (5, max(0, rem - 1)), (5, rem), (5, rem + 1), (5, rng.range(8194, 30000)),
                (3, rng.choice([12288, 16384, 65536, 1 << 30, 1 << 40, 1 << 62, (1 << 63) - 1])), (12, max(1, rem // (left_ops + 1))), (8, max(1, rem // 2)),
            ])
            ops.append({"h": h, "op": "read", "n": n})
            cursors[h] += min(n, rem)
        elif opk == "readall":
            ops.append({"h": h, "op": "readall"})
            cursors[h] = len(data)
        elif opk == "read_line":
            ops.append({"h": h, "op": "read_line"})
            j = data.find(b"\n", cursors[h])
            end = len(data) if j < 0 else j + 1
            seg = data[cursors[h]:end]
            cursors[h] = end
            if not textual:
                try:
                    seg.decode("utf-8")
                except UnicodeDecodeError:
                    closed[h] = True
        else:
            ops.append({"h": h, "op": "read_to_string"})
            seg = data[cursors[h]:]
            cursors[h] = len(data)
            if not textual:
                try:
                    seg.decode("utf-8")
                except UnicodeDecodeError:
                    closed[h] = True
    if not ops:
        ops.append({"h": 0, "op": "readall"})
    chunks = content.chunk_plan(rng)
    rseed = rng.u64() >> 8
    if any(hd["content"].get("n", 0) > (1 << 19) for hd in handles) and chunks[1] and sum(chunks[1]) < 512 * len(chunks[1]):
        # more than a megabyte in transfers of a few bytes is a million system calls: such a run comes
        # close to the CPU-time limit of a simulated process, and where it is cut is not decided by the
        # simulator.  Big inputs get coarse (still odd-sized) transfers; no PRNG draw, so every other
        # scenario of the seed is unchanged.
        chunks = [1, [[8191], [4097, 1, 8192], [65536], [1000, 12288]][rseed % 4]]
    return {"pop": "read", "handles": handles, "ops": ops, "chunks": chunks, "rseed": rseed}


def _gen_wdata(rng):
    t = rng.weighted([(45, "str"), (15, "byte"), (40, "arr")])
    if t == "byte":
        return {"t": "byte", "v": rng.below(256)}
    n = rng.weighted([
        (20, rng.range(0, 10)), (25, rng.range(10, 300)), (10, rng.range(300, 4000)),
        (12, rng.choice([4095, 4096, 4097])), (14, rng.choice([8190, 8191, 8192, 8193, 8194])),
        (8, rng.range(8195, 20000)), (3, rng.range(20000, 40000)), (2, rng.choice([65536, 65537, 70000, 131073])),
    ])
    if t == "str":
        unit = rng.choice(["a", "xy", "line\n", "é", "0123456789", "p2sh ", "\t", "€uro\n"])
        ub = len(unit.encode())
        rep = max(0, n // ub)
        return {"t": "str", "unit": unit, "rep": rep}
    return {"t": "arr", "n": n, "mul": rng.choice([1, 3, 7, 11, 251]), "add": rng.below(256)}


def wdata_bytes(d):
    if d["t"] == "byte":
        return bytes([d["v"]])
    if d["t"] == "str":
        return d["unit"].encode() * d["rep"]
    return content.expand({"t": "pattern", "n": d["n"], "mul": d["mul"], "add": d["add"]})


def gen_write(rng, tier):
    deep = tier == "thorough"
    nh = rng.weighted([(5, 1), (3, 2), (2, 3), (2 if deep else 0, 4)])
    handles = []
    for i in range(nh):
        initial = None
        if rng.chance(50):
            initial = {"t": rng.choice(["text", "bin"]), "n": rng.choice([0, 1, 5, 100, 8191, 8192, 8193, 20000]),
                       "seed": rng.u64() >> 16}
        mode = rng.weighted([(33, "w"), (35, "a"), (22, "x"), (10, "r")])
        handles.append({"path": "d/f%d" % i, "initial": initial, "mode": mode})
    ops = []
    pending = []
    for i in range(nh):
        pending += [i] * rng.range(1, 20 if deep else 10)
    rng.shuffle(pending)
    for h in pending:
        if handles[h]["mode"] == "r":
            continue  # writing to / flushing a reader is a type error by design, not an I/O property
        k = rng.weighted([(70, "write"), (22, "flush"), (8, "readback")])
        if k == "write":
            ops.append({"h": h, "op": "write", "data": _gen_wdata(rng)})
        elif k == "flush":
            ops.append({"h": h, "op": "flush"})
        else:
            ops.append({"h": h, "op": "flush"})
            ops.append({"h": h, "op": "readback"})
    end = rng.weighted([(34, "normal"), (10, "rterr"), (10, "exit_flushed"), (10, "exit_unflushed"), (36, "kill")])
    model = {"pop": "write", "handles": handles, "ops": ops, "end": end, "rseed": rng.u64() >> 8}
    if end in ("exit_flushed", "exit_unflushed"):
        model["exit_code"] = rng.choice([0, 1, 3, 7, 42])
    if end == "kill":
        nops = len(ops) + nh  # opens are operations too
        if rng.chance(50):
            # between operations: at the k-th delimiter (biased towards right after a flush)
            k = rng.range(1, nops + 1)
            flush_pos = [nh + j + 2 for j, o in enumerate(ops) if o["op"] == "flush"]
            if flush_pos and rng.chance(50):
                k = rng.choice(flush_pos)
            model["kill"] = ["C", min(k, nops + 1)]
        else:
            # inside an operation: at the n-th write(2) on any watched descriptor
            model["kill"] = ["W", rng.range(1, 8)]
    return model


def gen_append2(rng, tier):
    """Several append-mode handles on ONE file.  Appending is positional only at flush time (O_APPEND), so the
    file must be the flushed chunks in flush order.  Writes stay far below any buffer capacity and every
    handle is flushed explicitly before the end, so no implementation detail of the buffering is assumed."""
    nh = rng.range(2, 3)
    initial = None
    if rng.chance(60):
        initial = {"t": "text", "n": rng.choice([0, 1, 7, 100, 8192]), "seed": rng.u64() >> 16}
    ops = []
    for _ in range(rng.range(3, 14)):
        h = rng.below(nh)
        if rng.chance(65):
            ops.append({"h": h, "op": "write", "data": {"t": "str", "unit": rng.choice(["a", "bb", "line\n", "x-", "0123456789"]), "rep": rng.range(1, 12)}})
        else:
            ops.append({"h": h, "op": "flush"})
    order = list(range(nh))
    rng.shuffle(order)
    for h in order:
        ops.append({"h": h, "op": "flush"})
    return {"pop": "append2", "nh": nh, "initial": initial, "ops": ops, "rseed": rng.u64() >> 8}


def render_append2(model):
    lines = []
    files = {}
    if model["initial"] is not None:
        files["d/log"] = content.expand(model["initial"])
    for i in range(model["nh"]):
        lines.append('let h%d = open("d/log", "a");' % i)
        lines.append(script.obs_handle(i, "h%d" % i))
    k = model["nh"]
    for op in model["ops"]:
        lines.append("time();")
        if op["op"] == "write":
            lines.append("let r = write(h%d, %s); %s" % (op["h"], _wdata_expr(op["data"], k, []), script.obs_val(k)))
        else:
            lines.append("let r = flush(h%d); %s" % (op["h"], script.obs_val(k)))
        k += 1
    lines.append('eprintln("#9999 V DONE");')
    return {"argv": ["s.p2"], "script": "\n".join(lines) + "\n", "files": files, "dirs": ["d"], "stdin": None,
            "plan": {"root": "d/", "paths": [[0, "r", "d/log"]], "rseed": model["rseed"], "faults": []}}


def check_append2(model, res):
    viols = []
    stats = {"probe.two_appenders_one_file": 1}
    obs, other = _common(model, res, viols)
    if other:
        viols.append(_viol("append2:process:stderr", "unexpected stderr lines: %r" % other[:3]))
    expect = content.expand(model["initial"]) if model["initial"] is not None else b""
    pending = [b""] * model["nh"]
    for i in range(model["nh"]):
        o = obs.get(i)
        if not o or o[0][0] != "V":
            viols.append(_viol("append2:open:error", "open(\"d/log\", \"a\") #%d failed: %r" % (i, o)))
            return {"violations": viols, "stats": stats, "hist": "append2|openfail", "nontrivial": True, "ops": len(model["ops"])}
    k = model["nh"]
    for op in model["ops"]:
        o = obs.get(k)
        if op["op"] == "write":
            d = wdata_bytes(op["data"])
            pending[op["h"]] += d
            if not o or o[0] != ("V", str(len(d))):
                viols.append(_viol("append2:write:result", "op %d: write of %d bytes returned %r" % (k, len(d), o)))
        else:
            expect += pending[op["h"]]
            pending[op["h"]] = b""
            if not o or o[0] != ("V", "null"):
                viols.append(_viol("append2:flush:result", "op %d: flush returned %r" % (k, o)))
        k += 1
    got = res.files.get("d/log")
    if got != expect:
        viols.append(_viol("append2:file:%s" % (_diff_class(expect, got or b"") or "wrong"),
                           "%d append-mode handles on one file: expected %d bytes (the flushed chunks in flush order), file has %s; expected %s got %s" % (
                               model["nh"], len(expect), "nothing" if got is None else "%d bytes" % len(got), _short(expect, 40), _short(got or b"", 40))))
    hist = "append2|" + "".join("%s%d" % (o["op"][0], o["h"]) for o in model["ops"])
    return {"violations": viols, "stats": stats, "hist": hist, "nontrivial": True, "ops": len(model["ops"]) + model["nh"]}


def generate(rng, tier, idx):
    k = rng.weighted([(52, "read"), (40, "write"), (8, "append2")])
    if k == "read":
        return gen_read(rng, tier)
    if k == "append2":
        return gen_append2(rng, tier)
    return gen_write(rng, tier)


# ---------------------------------------------------------------------------
# rendering

def render(model):
    if model["pop"] == "read":
        return render_read(model)
    if model["pop"] == "append2":
        return render_append2(model)
    return render_write(model)


def render_read(model):
    lines = []
    files = {}
    paths = []
    stdin = None
    plan = {"root": "d/", "paths": paths, "chunks": model["chunks"], "rseed": model["rseed"], "faults": []}
    for i, h in enumerate(model["handles"]):
        data = content.expand(h["content"])
        if h["kind"] == "stdin":
            stdin = data
            plan["stdin"] = "p"
            lines.append("let h%d = stdin;" % i)
        else:
            if "alias" in h:
                rel = "d/in%d" % h["alias"]
            else:
                rel = "d/in%d" % i
                files[rel] = data
                paths.append([i, "p" if h["kind"] == "pipe" else "r", rel])
            lines.append('let h%d = open("%s");' % (i, rel))
            lines.append('if is_error(h%d) { eprintln("#%d E {}", h%d); } else { eprintln("#%d V {}", h%d); }' % (i, 1000 + i, i, 1000 + i, i))
    for k, op in enumerate(model["ops"]):
        h = op["h"]
        lines.append("time();")
        if op["op"] == "read":
            lines.append("let r = read(h%d, %d);" % (h, op["n"]))
            lines.append(script.obs_bytes(k))
            lines.append("if !is_error(r) { push(r, byte(%d)); }" % (k % 251))   # every result is the caller's own array
        elif op["op"] == "readall":
            lines.append("let r = read(h%d);" % h)
            lines.append(script.obs_bytes(k))
            lines.append("if !is_error(r) { push(r, byte(%d)); }" % (k % 251))
        elif op["op"] == "loop":
            lines.append('let go = true; let cnt = 0; while go { let r = read(h%d, %d); cnt = cnt + 1; if is_error(r) { eprintln("#%d E {}", r); go = false; } else '
                         '{ if len(r) == 0 { eprintln("#%d Z {}", cnt); go = false; } else { eprintln("#%d A {} {}", len(r), r); } } if cnt > 100000 { go = false; } }' % (h, op["n"], k, k, k))
        elif op["op"] == "read_line":
            lines.append("let r = read_line(h%d);" % h)
            lines.append(script.obs_str(k))
        elif op["op"] == "read_to_string":
            lines.append("let r = read_to_string(h%d);" % h)
            lines.append(script.obs_str(k))
    lines.append("time();")
    lines.append('eprintln("#9999 V DONE");')
    return {"argv": ["s.p2"], "script": "\n".join(lines) + "\n", "files": files, "dirs": ["d"], "stdin": stdin, "plan": plan}


def _wdata_expr(d, k, lines):
    if d["t"] == "byte":
        return "byte(%d)" % d["v"]
    if d["t"] == "str":
        if d["rep"] == 1:
            return '"%s"' % d["unit"]
        return '"%s" * %d' % (d["unit"], d["rep"])
    n = d["n"]
    if n <= 24:
        return script.byte_array_expr(wdata_bytes(d))
    lines.append("let a = []; let i = 0; while i < %d { push(a, byte((i * %d + %d) %% 256)); i = i + 1; }" % (n, d["mul"], d["add"]))
    return "a"


def render_write(model):
    lines = []
    files = {}
    paths = []
    plan = {"root": "d/", "paths": paths, "rseed": model["rseed"], "faults": []}
    nh = len(model["handles"])
    for i, h in enumerate(model["handles"]):
        if h["initial"] is not None:
            files[h["path"]] = content.expand(h["initial"])
        paths.append([i, "r", h["path"]])
    k = 0
    for i, h in enumerate(model["handles"]):
        lines.append("time();")
        lines.append('let h%d = open("%s", "%s");' % (i, h["path"], h["mode"]))
        lines.append(script.obs_handle(k, "h%d" % i))
        k += 1
    for op in model["ops"]:
        h = op["h"]
        lines.append("time();")
        if op["op"] == "write":
            pre = []
            expr = _wdata_expr(op["data"], k, pre)
            lines += pre
            lines.append('if is_error(h%d) { eprintln("#%d X"); } else { let r = write(h%d, %s); %s }' % (h, k, h, expr, script.obs_val(k)))
        elif op["op"] == "flush":
            lines.append('if is_error(h%d) { eprintln("#%d X"); } else { let r = flush(h%d); %s }' % (h, k, h, script.obs_val(k)))
        elif op["op"] == "readback":
            lines.append('if is_error(h%d) { eprintln("#%d X"); } else { let rb = open("%s"); let r = read(rb); %s }' % (
                h, k, model["handles"][h]["path"], script.obs_bytes(k)))
        k += 1
    lines.append("time();")
    end = model["end"]
    if end == "rterr":
        lines.append('eprintln("#9998 V PRE");')
        lines.append("len(5);")
        lines.append('eprintln("#9997 V NOTREACHED");')
    elif end == "exit_flushed":
        for i, h in enumerate(model["handles"]):
            if h["mode"] != "r":
                lines.append("if !is_error(h%d) { flush(h%d); }" % (i, i))
        lines.append('eprintln("#9999 V DONE");')
        lines.append("exit(%d);" % model["exit_code"])
    elif end == "exit_unflushed":
        lines.append('eprintln("#9999 V DONE");')
        lines.append("exit(%d);" % model["exit_code"])
    else:
        lines.append('eprintln("#9999 V DONE");')
    if end == "kill":
        call, nth = model["kill"]
        plan["faults"].append([-1, call, -1, nth, 8, 0])
    return {"argv": ["s.p2"], "script": "\n".join(lines) + "\n", "files": files, "dirs": ["d"], "stdin": None, "plan": plan}


# ---------------------------------------------------------------------------
# oracle

def _viol(sig, msg):
    return {"sig": "C21:" + sig, "msg": msg}


def _hist(model, res):
    parts = [model["pop"]]
    parts += [o["op"] for o in model["ops"]]
    for e in res.events:
        if e.call in ("R", "W", "O"):
            if e.res < 0:
                cls = "k" if e.action == 8 else "e%d" % e.errno
            elif e.call == "R":
                cls = "eof" if e.res == 0 else ("s" if e.res < e.req else "f")
            else:
                cls = "s" if e.res < e.req else "f"
            parts.append("%s%d%s" % (e.call, e.target if e.target < 0 else min(e.target, 9), cls))
    return "|".join(parts)


def _short(b, n=24):
    if len(b) <= n:
        return b.hex()
    return b[:n].hex() + "...(%d bytes)" % len(b)


def _diff_class(expected, got):
    if got == expected:
        return None
    if expected.startswith(got):
        return "short"
    if got.startswith(expected):
        return "extra"
    return "wrong"


def check(model, results):
    res = results[0]
    if model["pop"] == "read":
        return check_read(model, res)
    if model["pop"] == "append2":
        return check_append2(model, res)
    return check_write(model, res)


def _common(model, res, viols, allowed_exit=(0,), expect_done=True):
    obs, other = script.parse_obs(res.stderr)
    if script.panic_or_crash(res.stderr):
        viols.append(_viol("%s:process:panic" % model["pop"], "panic text on stderr: %r" % res.stderr[-300:]))
    if res.status[0] == "signal":
        viols.append(_viol("%s:process:signal" % model["pop"], "process ended by signal %d" % res.status[1]))
    elif res.status[1] not in allowed_exit:
        viols.append(_viol("%s:process:exit" % model["pop"], "exit status %d, expected one of %r; stderr tail %r" % (res.status[1], allowed_exit, res.stderr[-200:])))
    if expect_done and 9999 not in obs:
        viols.append(_viol("%s:process:notdone" % model["pop"], "program did not reach its end; stderr tail %r" % res.stderr[-300:]))
    return obs, other


def check_read(model, res):
    viols = []
    stats = {}

    def inc(k, n=1):
        stats[k] = stats.get(k, 0) + n

    obs, other = _common(model, res, viols)
    if other:
        viols.append(_viol("read:process:stderr", "unexpected stderr lines: %r" % other[:3]))
    if res.stdout:
        viols.append(_viol("read:process:stdout", "unexpected stdout: %r" % res.stdout[:100]))
    handles = model["handles"]
    datas = [content.expand(h["content"]) for h in handles]
    cursors = [0] * len(handles)
    bad = [False] * len(handles)
    for i, h in enumerate(handles):
        if h["kind"] != "stdin":
            o = obs.get(1000 + i)
            if not o or o[0][0] != "V":
                viols.append(_viol("read:open:error", "open of an existing file failed: %r" % (o,)))
                bad[i] = True
    # per-op events from the trace (operation index = number of delimiters seen)
    ev_by_op = {}
    for e in res.events:
        ev_by_op.setdefault(e.op, []).append(e)
    kinds = set(h["kind"] for h in handles)
    if "stdin" in kinds and len(kinds) > 1:
        inc("probe.stdin_and_file")
    if any("alias" in h for h in handles):
        inc("probe.two_handles_one_file")
    nontrivial = False
    for k, op in enumerate(model["ops"]):
        h = op["h"]
        kind = handles[h]["kind"]
        data = datas[h]
        cur = cursors[h]
        rem = len(data) - cur
        expect_err = False
        if op["op"] == "loop":
            exp = data[cur:]
        elif op["op"] == "read":
            exp = data[cur:cur + op["n"]]
        elif op["op"] == "readall":
            exp = data[cur:]
        elif op["op"] == "read_line":
            j = data.find(b"\n", cur)
            exp = data[cur:] if j < 0 else data[cur:j + 1]
        else:
            exp = data[cur:]
        cursors[h] = cur + len(exp)
        if op["op"] in ("read_line", "read_to_string"):
            try:
                exp.decode("utf-8")
            except UnicodeDecodeError:
                expect_err = True
        evs = [e for e in ev_by_op.get(k + 1, []) if e.call == "R"]
        nchunked = sum(1 for e in evs if e.action == 100)
        inc("fired.chunk", nchunked)
        if nchunked:
            nontrivial = True
            inc("probe.chunk_inside_read")
            if op["op"] == "read_line":
                inc("probe.line_spans_chunk")
        if len(evs) >= 2 or (kind == "reg" and evs and op["op"] == "read" and cur > 0):
            inc("probe.read_spans_refill")
            nontrivial = True
        if rem == 0:
            inc("probe.read_at_eof")
        if op["op"] in ("read_line", "read_to_string") and nchunked:
            # chunk boundary inside a multi-byte character?
            for e in evs:
                if e.res > 0:
                    b = e.off + e.res
                    if 0 < b < len(data) and (data[b] & 0xC0) == 0x80:
                        inc("probe.multibyte_split")
                        break
        inc("ops." + op["op"])
        if bad[h]:
            continue
        o = obs.get(k)
        tagname = "%s:%s" % (op["op"], kind)
        if not o:
            viols.append(_viol("read:%s:missing" % tagname, "op %d (%s): no observation" % (k, op)))
            bad[h] = True
            continue
        if op["op"] == "loop":
            inc("probe.read_loop")
            chunks = []
            endtag = None
            okparse = True
            for t, r in o:
                if t == "A":
                    try:
                        chunks.append(script.decode_data(t, r)[1])
                    except ValueError:
                        okparse = False
                else:
                    endtag = t
            got = b"".join(chunks)
            n = op["n"]
            if not okparse:
                viols.append(_viol("read:%s:garbled" % tagname, "op %d: chunk line could not be parsed" % k))
                bad[h] = True
            elif endtag != "Z":
                viols.append(_viol("read:%s:error" % tagname, "op %d read loop (n=%d) on %s handle ended with %s after %d bytes of %d" % (k, n, kind, endtag, len(got), len(exp))))
                bad[h] = True
            elif got != exp:
                viols.append(_viol("read:%s:%s" % (tagname, _diff_class(exp, got) or "wrong"), "op %d: a loop of read(h, %d) on %s handle from offset %d of %d returned %d bytes in %d calls, expected %d" % (
                    k, n, kind, cur, len(data), len(got), len(chunks), len(exp))))
                bad[h] = True
            elif any(len(c) != n for c in chunks[:-1]) or (chunks and len(chunks[-1]) > n):
                viols.append(_viol("read:%s:chunking" % tagname, "op %d: read(h, %d) returned a short count before end of input: sizes %r" % (k, n, [len(c) for c in chunks][:12])))
                bad[h] = True
            continue
        tag, rest = o[0]
        if tag == "E":
            if expect_err:
                continue
            viols.append(_viol("read:%s:error" % tagname, "op %d %s at offset %d of %d: unexpected error object %r" % (k, op, cur, len(data), rest[:100])))
            bad[h] = True
            continue
        want_tag = "A" if op["op"] in ("read", "readall") else "S"
        if tag != want_tag:
            viols.append(_viol("read:%s:type" % tagname, "op %d %s: observation tag %s, expected %s" % (k, op, tag, want_tag)))
            bad[h] = True
            continue
        try:
            n, got = script.decode_data(tag, rest)
        except ValueError as e:
            viols.append(_viol("read:%s:garbled" % tagname, "op %d: %s" % (k, e)))
            bad[h] = True
            continue
        if n != len(got):
            viols.append(_viol("read:%s:len" % tagname, "op %d: len() says %d but %d bytes printed" % (k, n, len(got))))
        if expect_err:
            # invalid UTF-8 can not be returned as a string: only an error object is correct
            viols.append(_viol("read:%s:noerror" % tagname, "op %d %s: invalid UTF-8 segment returned as a string" % (k, op)))
            bad[h] = True
            continue
        cls = _diff_class(exp, got)
        if cls:
            viols.append(_viol("read:%s:%s" % (tagname, cls),
                               "op %d %s on %s handle at offset %d of %d: expected %d bytes, got %d (expected %s, got %s); read(2) results in this op: %s" % (
                                   k, {x: op[x] for x in op if x != "h"}, kind, cur, len(data), len(exp), len(got), _short(exp), _short(got),
                                   [(e.req, e.res) for e in evs][:8])))
            bad[h] = True
    return {"violations": viols, "stats": stats, "hist": _hist(model, res), "nontrivial": nontrivial, "ops": len(model["ops"])}


def check_write(model, res):
    viols = []
    stats = {}

    def inc(k, n=1):
        stats[k] = stats.get(k, 0) + n

    end = model["end"]
    killed = False
    if end == "kill":
        killed = any(e.action == 8 for e in res.events) or res.status == ("signal", 9)
    allowed = (0,)
    if end in ("exit_flushed", "exit_unflushed"):
        allowed = (model["exit_code"],)
    if killed:
        obs, other = script.parse_obs(res.stderr)
        if res.status != ("signal", 9):
            viols.append(_viol("write:process:killstatus", "kill injected but status is %r" % (res.status,)))
        inc("probe.kill_fired")
        inc("fired.kill")
    else:
        obs, other = _common(model, res, viols, allowed_exit=allowed, expect_done=(end != "rterr"))
    if end == "rterr" and not killed:
        if 9998 not in obs or 9997 in obs:
            viols.append(_viol("write:process:rterr", "runtime-error ending did not behave as a runtime error"))
        other = [l for l in other if "Runtime error" not in l]
    if other:
        viols.append(_viol("write:process:stderr", "unexpected stderr lines: %r" % other[:3]))
    if res.stdout:
        viols.append(_viol("write:process:stdout", "unexpected stdout: %r" % res.stdout[:100]))

    handles = model["handles"]
    nh = len(handles)
    initial = [content.expand(h["initial"]) if h["initial"] is not None else None for h in handles]
    ok = [False] * nh        # model: open succeeds
    base = [b""] * nh
    for i, h in enumerate(handles):
        m = h["mode"]
        if m == "r":
            ok[i] = initial[i] is not None
        elif m == "w":
            ok[i] = True
            base[i] = b""
        elif m == "a":
            ok[i] = True
            base[i] = initial[i] or b""
            if initial[i] is not None:
                inc("probe.append_existing")
            else:
                inc("probe.a_missing")
        elif m == "x":
            ok[i] = initial[i] is None
            if initial[i] is not None:
                inc("probe.x_exists")
    opened_in_trace = set(e.target for e in res.events if e.call == "O" and e.res >= 0)
    obs_open_ok = [False] * nh
    for i, h in enumerate(handles):
        o = obs.get(i)
        if not o:
            if not killed:
                viols.append(_viol("write:open:missing", "no observation for open #%d" % i))
            continue
        tag = o[0][0]
        if ok[i] and tag != "V":
            viols.append(_viol("write:open_%s:error:%s" % (h["mode"], "missing" if initial[i] is None else "existing"),
                               "open(%r, %r) on %s file returned an error object: %r" % (h["path"], h["mode"], "a missing" if initial[i] is None else "an existing", o[0][1][:100])))
        elif not ok[i] and tag != "E":
            viols.append(_viol("write:open_%s:noerror:%s" % (h["mode"], "missing" if initial[i] is None else "existing"),
                               "open(%r, %r) on %s file did not return an error object: %r" % (h["path"], h["mode"], "a missing" if initial[i] is None else "an existing", o[0][1][:100])))
        obs_open_ok[i] = (tag == "V")

    written = [b""] * nh     # bytes the program was told were written (sum of returned counts)
    flushed = [0] * nh       # length of `written` covered by an acknowledged flush
    attempted = [b""] * nh   # bytes of every write the script started (upper bound under a kill)
    ev_by_op = {}
    for e in res.events:
        ev_by_op.setdefault(e.op, []).append(e)
    nontrivial = end != "normal"
    k = nh
    last_flush_k = None
    for op in model["ops"]:
        h = op["h"]
        o = obs.get(k)
        inc("ops." + op["op"])
        wevs = [e for e in ev_by_op.get(k + 1, []) if e.call == "W"]
        is_writer = handles[h]["mode"] != "r"
        if not o:
            if op["op"] == "write" and obs_open_ok[h] and is_writer and killed:
                # the kill may have landed inside this write: it may be partly on disk
                attempted[h] += wdata_bytes(op["data"])
            if not killed and not (end == "rterr"):
                viols.append(_viol("write:%s:missing" % op["op"], "op %d (%s): no observation" % (k, op["op"])))
            elif not killed:
                viols.append(_viol("write:%s:missing" % op["op"], "op %d (%s): no observation" % (k, op["op"])))
            k += 1
            continue
        tag, rest = o[0]
        if tag == "X":
            if obs_open_ok[h]:
                viols.append(_viol("write:guard", "op %d skipped although the handle was good" % k))
            k += 1
            continue
        if not is_writer:
            # ops on a reader handle are not generated as writes; the guard let us in: ignore
            k += 1
            continue
        if op["op"] == "write":
            data = wdata_bytes(op["data"])
            attempted[h] += data
            if wevs:
                inc("probe.bufwriter_overflow")
                nontrivial = True
            if len(data) >= 8192:
                inc("probe.big_write_bypass")
            if tag != "V":
                viols.append(_viol("write:write:error", "op %d write of %d bytes returned %s %r without any injected fault" % (k, len(data), tag, rest[:80])))
            else:
                try:
                    cnt = int(rest)
                except ValueError:
                    cnt = -1
                if cnt != len(data):
                    viols.append(_viol("write:write:count", "op %d write of %d bytes returned %r" % (k, len(data), rest[:40])))
                    cnt = max(0, min(cnt, len(data)))
                written[h] += data[:cnt]
        elif op["op"] == "flush":
            if tag != "V" or rest != "null":
                viols.append(_viol("write:flush:result", "op %d flush returned %s %r" % (k, tag, rest[:80])))
            else:
                flushed[h] = len(written[h])
                last_flush_k = k
        elif op["op"] == "readback":
            inc("probe.readback")
            if tag != "A":
                viols.append(_viol("write:readback:error", "op %d: reading the file back failed: %s %r" % (k, tag, rest[:80])))
            else:
                try:
                    n, got = script.decode_data(tag, rest)
                except ValueError as e:
                    got = None
                    viols.append(_viol("write:readback:garbled", "op %d: %s" % (k, e)))
                if got is not None:
                    lo = base[h] + written[h][:flushed[h]]
                    hi = base[h] + written[h]
                    if not (got.startswith(lo) and hi.startswith(got)):
                        viols.append(_viol("write:readback:%s" % (_diff_class(lo, got) or "wrong"),
                                           "op %d: read-back after flush: expected at least the %d flushed bytes (of %d written), got %d bytes" % (k, len(lo), len(hi), len(got))))
        k += 1
    if killed and last_flush_k is not None:
        inc("probe.kill_after_flush")
    if end == "exit_unflushed":
        inc("probe.exit_unflushed")

    # final file contents
    for i, h in enumerate(handles):
        got = res.files.get(h["path"])
        m = h["mode"]
        tagm = "%s:%s" % (m, "missing" if initial[i] is None else "existing")
        if not ok[i] or m == "r":
            # must be untouched
            if got != initial[i]:
                viols.append(_viol("write:file_%s:touched" % tagm, "%s: failed/reader open changed the file (%s -> %s)" % (
                    h["path"], "absent" if initial[i] is None else "%d bytes" % len(initial[i]), "absent" if got is None else "%d bytes" % len(got))))
            continue
        if not obs_open_ok[i]:
            if killed and i not in opened_in_trace:
                if got != initial[i]:
                    viols.append(_viol("write:file_%s:touched" % tagm, "%s changed although it was never opened" % h["path"]))
            elif killed:
                if got not in (initial[i], base[i]):
                    viols.append(_viol("write:file_%s:wrong" % tagm, "%s has unexpected content after a kill right after open" % h["path"]))
            # (an unexpected open failure was already reported)
            continue
        full = base[i] + written[i]
        if got is None:
            viols.append(_viol("write:file_%s:absent" % tagm, "%s does not exist although open succeeded" % h["path"]))
            continue
        if killed or end == "exit_unflushed":
            lo = base[i] + written[i][:flushed[i]]
            hi = base[i] + attempted[i] if killed else full
            if not got.startswith(lo):
                viols.append(_viol("write:file_%s:lost_flushed:%s" % (tagm, "kill" if killed else "exit"),
                                   "%s: %d bytes were acknowledged by flush but the file has %d bytes (%s)" % (
                                       h["path"], len(lo), len(got), _diff_class(lo, got))))
            elif not hi.startswith(got):
                viols.append(_viol("write:file_%s:garbage:%s" % (tagm, "kill" if killed else "exit"),
                                   "%s: content is not a prefix of what was written (%d bytes on disk, %d written)" % (h["path"], len(got), len(hi))))
        else:
            cls = _diff_class(full, got)
            if cls:
                viols.append(_viol("write:file_%s:%s:%s" % (tagm, cls, end),
                                   "%s after %s end: expected %d bytes (base %d + written %d), file has %d; expected %s got %s" % (
                                       h["path"], end, len(full), len(base[i]), len(written[i]), len(got), _short(full), _short(got))))
    return {"violations": viols, "stats": stats, "hist": _hist(model, res) + "|" + end, "nontrivial": nontrivial, "ops": len(model["ops"]) + nh}


# ---------------------------------------------------------------------------
# minimisation and samples

def shrink(model):
    m = model
    if m["pop"] == "append2":
        n = len(m["ops"]) - m["nh"]   # the closing flush of every handle stays
        for i in range(n):
            yield dict(m, ops=m["ops"][:i] + m["ops"][i + 1:])
        if m["initial"] is not None:
            yield dict(m, initial=None)
        return
    # fewer operations
    n = len(m["ops"])
    if n > 1:
        for cut in (n // 2, 1):
            for start in range(0, n, cut):
                c = dict(m)
                c["ops"] = m["ops"][:start] + m["ops"][start + cut:]
                if c["ops"]:
                    yield _fix(c)
    # fewer handles
    if len(m["handles"]) > 1:
        for i in range(len(m["handles"])):
            c = dict(m)
            if any(h.get("alias") == i for h in m["handles"]):
                continue   # another handle aliases this one's file
            c["handles"] = [dict(h, alias=h["alias"] - 1) if h.get("alias", -1) > i else h for j, h in enumerate(m["handles"]) if j != i]
            c["ops"] = [dict(o, h=(o["h"] - 1 if o["h"] > i else o["h"])) for o in m["ops"] if o["h"] != i]
            if c["ops"] or m["pop"] == "write":
                yield _fix(c)
    # simpler schedule
    if m["pop"] == "read":
        cyc, sizes = m["chunks"]
        if sizes:
            yield dict(m, chunks=[0, []])
            if len(sizes) > 1:
                yield dict(m, chunks=[cyc, sizes[: len(sizes) // 2]])
                yield dict(m, chunks=[cyc, sizes[1:]])
            if cyc:
                yield dict(m, chunks=[0, sizes])
        for i, h in enumerate(m["handles"]):
            if h["kind"] != "reg" and not any(x["kind"] == "reg" for x in m["handles"]) or h["kind"] == "pipe":
                pass
            if "alias" in h:
                continue   # shares the file of another handle: shrunk together with it
            for s in content.shrink_spec(h["content"]):
                hs = [dict(x, content=s) if (j == i or x.get("alias") == i) else x for j, x in enumerate(m["handles"])]
                yield dict(m, handles=hs)
            if h["kind"] == "pipe":
                hs = [dict(x, kind="reg") if (j == i or x.get("alias") == i) else x for j, x in enumerate(m["handles"])]
                yield dict(m, handles=hs)
        for i, o in enumerate(m["ops"]):
            if o["op"] == "read" and o["n"] > 1:
                for nn in (o["n"] // 2, o["n"] - 1):
                    ops = list(m["ops"])
                    ops[i] = dict(o, n=nn)
                    yield dict(m, ops=ops)
    else:
        if m["end"] != "normal":
            c = dict(m, end="normal")
            c.pop("kill", None)
            yield c
        for i, h in enumerate(m["handles"]):
            if h["initial"] is not None:
                for s in content.shrink_spec(h["initial"]):
                    hs = list(m["handles"])
                    hs[i] = dict(h, initial=s)
                    yield dict(m, handles=hs)
        for i, o in enumerate(m["ops"]):
            if o["op"] == "write":
                d = o["data"]
                cands = []
                if d["t"] == "str" and d["rep"] > 1:
                    cands = [dict(d, rep=d["rep"] // 2), dict(d, rep=d["rep"] - 1)]
                elif d["t"] == "arr" and d["n"] > 0:
                    cands = [dict(d, n=d["n"] // 2), dict(d, n=d["n"] - 1)]
                for nd in cands:
                    ops = list(m["ops"])
                    ops[i] = dict(o, data=nd)
                    yield dict(m, ops=ops)


def _fix(c):
    if c.get("end") == "kill" and c.get("kill") and c["kill"][0] == "C":
        nops = len(c["ops"]) + len(c["handles"])
        c = dict(c, kill=["C", max(1, min(c["kill"][1], nops + 1))])
    return c


def sample(model, results):
    res = results[0]
    conc = render(model)
    if model["pop"] == "append2":
        return {"population": "append2", "model": model, "script_head": conc["script"][:1200], "status": list(res.status)}
    return {
        "population": model["pop"],
        "model": model,
        "script_head": conc["script"][:1500],
        "plan": __import__("sim.runner", fromlist=["plan_text"]).plan_text(conc["plan"]),
        "status": list(res.status),
        "history_head": res.trace[:1200],
        "stderr_head": res.stderr[:600].decode("utf-8", "replace"),
    }
