"""C19 -- pcap file reading and writing preserve records in order.

Simulated dimensions: read(2) chunk schedules on pipe-like sources / stdin (S1), the byte
offset at which the producer of the file died (torn file), detectable header corruption, and
the history of pcap_read_next / pcap_read_all(f[, n]) calls.  Oracle: record list + cursor.
"""
from sim import content, pcapfmt, script
from sim.prng import Rng

ID = "C19"
LEVEL = "exploration"
BUDGET = {
    "quick": {"runs": 4500, "time_cap": 150, "determinism_sample": 40, "shrink_runs": 300},
    "thorough": {"runs": 80000, "time_cap": 1500, "determinism_sample": 300, "shrink_runs": 600},
}
BOUNDS = "quick: 1-2 pcap sources per process and <=14(+3) calls per handle (thorough: 1-3 sources, <=30 calls), 0-50 records each (caplen 0..70000, biased to 0, 1, 60, 1514 and to record sizes that straddle 4096/8192-byte buffer boundaries), snaplen in {64,256,1514,65535,262144}, <=40 calls per handle, <=40 explicit chunk sizes"
RULE = ("runs 0..S-1 are a systematic block: one small four-record file cut at every byte offset (0..total) x three call "
        "patterns, source kind and chunk schedule rotating; later runs are seeded: each run = 1-2 generated pcap files (both magics, varied global headers) presented as regular file, pipe-like path or "
        "stdin, optionally truncated at a chosen byte offset or corrupted (bad magic, short global header, caplen > snaplen in "
        "record j), read by a random interleaving of pcap_read_next / pcap_read_all(f) / pcap_read_all(f, n) continuing past the "
        "end; optionally every packet is written with pcap_write (file mode w/x or pcap_stream(stdout)) and re-read by a second "
        "process; same case iff (source kind, damage kind, call kinds, per-call (call, result class)) agree; non-trivial iff a "
        "read(2) was shortened by the schedule, or the file is damaged, or packets were written")
ASSUMPTIONS = [
    "regular-file reads are never shortened by the simulator",
    "undetectable corruption (e.g. a smaller caplen) is excluded: no reader can notice it",
    "pcap_read_all may return the error object instead of a partial array when it meets a corrupt record header (as builtins-packet.md documents); it may never return wrong or extra records",
    "after the first error object caused by a corrupt record header the handle is poisoned and not asserted further",
    "big-endian pcap files are treated as 'bad magic' (p2sh documents little-endian legacy pcap only)",
    "search is seeded sampling, not exhaustive",
]
PROBES = [
    "probe.chunk_in_global_header", "probe.chunk_in_record_header", "probe.chunk_in_record_data", "probe.trunc_in_global_header",
    "probe.trunc_in_record_header", "probe.trunc_in_record_data", "probe.trunc_on_boundary", "probe.corrupt_caplen",
    "probe.bad_magic", "probe.read_past_end", "probe.read_all_n_gt_remaining", "probe.read_all_n_zero", "probe.zero_records",
    "probe.nanosecond_magic", "probe.written_reread", "probe.written_stdout", "probe.record_gt_65535", "probe.empty_payload",
    "probe.drain_loop", "probe.long_file", "probe.packet_written_twice", "probe.read_all_huge_n", "probe.output_path_existed",
]


# ---------------------------------------------------------------------------
# generation

def _gen_episode(rng, allow_stdin, deep=False):
    hdr = pcapfmt.gen_header(rng)
    nrec = rng.weighted([(6, 0), (10, 1), (30, rng.range(2, 6)), (30, rng.range(6, 20)), (10, rng.range(20, 50))])
    allow_huge = hdr["snaplen"] >= 70000
    recs = [pcapfmt.gen_record(rng, hdr["snaplen"], allow_huge=allow_huge and rng.chance(30)) for _ in range(nrec)]
    long_file = rng.chance(6 if deep else 3)
    if long_file:
        # a long file of tiny records: state kept per handle across thousands of records
        nrec = rng.choice([400, 1500, 4000])
        recs = [{"sec": i, "usec": (i * 104729) % 1000000000, "wirelen": (i * 17) % 2000,
                 "data": {"t": "pattern", "n": min(hdr["snaplen"], (i * 5) % 23), "mul": 1, "add": i % 256}} for i in range(nrec)]
    source = rng.weighted([(35, "reg"), (40, "pipe"), (25 if allow_stdin else 0, "stdin")])
    damage = None
    total = 24 + sum(16 + r["data"]["n"] for r in recs)
    d = rng.weighted([(50, "none"), (32, "trunc"), (8, "caplen"), (5, "badmagic"), (5, "shorthdr")])
    if d == "trunc":
        offs = [24]
        for r in recs:
            offs.append(offs[-1] + 16 + r["data"]["n"])
        where = rng.weighted([(10, "ghdr"), (30, "rhdr"), (35, "rdata"), (15, "boundary"), (10, "any")])
        if where == "ghdr" or not recs:
            at = rng.range(0, 23)
        elif where == "boundary":
            at = offs[rng.below(len(offs) - 1)] if len(offs) > 1 else 24
        else:
            j = rng.below(len(recs))
            if where == "rhdr":
                at = offs[j] + rng.range(1, 15)
            elif where == "rdata" and recs[j]["data"]["n"] > 0:
                at = offs[j] + 16 + rng.range(0, recs[j]["data"]["n"] - 1)
            else:
                at = rng.range(0, max(0, total - 1))
        damage = {"kind": "trunc", "at": min(at, total)}
    elif d == "caplen" and recs:
        j = rng.below(len(recs))
        overs = [o for o in (1, 2, 100, 70000, 0x7FFFFFFF, 0xFFFFFFFF - hdr["snaplen"]) if 0 < o and hdr["snaplen"] + o <= 0xFFFFFFFF]
        if overs:   # (with snaplen 0xFFFFFFFF no caplen can exceed it: nothing to corrupt that way)
            damage = {"kind": "caplen", "rec": j, "over": rng.choice(overs)}
    elif d == "badmagic":
        damage = {"kind": "badmagic", "magic": rng.choice([0xD4C3B2A1, 0x4D3CB2A1, 0x0A0D0D0A, 0, 0xA1B2C3D5, 0xFFFFFFFF])}
    elif d == "shorthdr":
        damage = {"kind": "trunc", "at": rng.range(0, 23)}
    # calls: read_all(f) is mostly kept for the end so that the other calls meet records;
    # at most three calls past the end
    calls = []
    remaining = len(recs)
    ncalls = rng.range(1, 30 if deep else 14)
    past = 0
    for j in range(ncalls):
        last = j >= ncalls - 2
        if remaining == 0:
            past += 1
            if past > 3:
                break
        c = rng.weighted([(50, "next"), (25 if last else 4, "all"), (35, "alln")])
        if c == "next":
            calls.append(["next"])
            remaining = max(0, remaining - 1)
        elif c == "all":
            calls.append(["all"])
            remaining = 0
        else:
            left = max(1, ncalls - j)
            n = rng.weighted([(6, 0), (20, 1), (25, rng.range(2, 5)), (10, max(0, remaining - 1)), (10, remaining), (10, remaining + rng.range(1, 3)),
                              (19, max(1, remaining // left)), (4, rng.choice([10 ** 6, 2 ** 31, 2 ** 40, 2 ** 62, 2 ** 63 - 1]))])
            calls.append(["alln", n])
            remaining = max(0, remaining - n)
    if long_file:
        calls = rng.choice([[["drain"], ["next"]], [["alln", 7], ["drain"], ["all"]], [["next"], ["next"], ["drain"], ["next"]], [["all"], ["next"]]])
    elif rng.chance(15):
        calls.insert(rng.below(len(calls) + 1), ["drain"])
    return {"hdr": hdr, "recs": recs, "source": source, "damage": damage, "calls": calls}


_SYS = None


def systematic():
    """A small well-formed file truncated at *every* byte offset, read with three call patterns,
    the source kind rotating with the offset (the statement's 'truncated at every byte offset')."""
    global _SYS
    if _SYS is None:
        hdr = pcapfmt.default_header(pcapfmt.MAGIC_NS)
        hdr["snaplen"] = 20
        recs = [
            {"sec": 1, "usec": 999999999, "wirelen": 5, "data": {"t": "pattern", "n": 5, "mul": 1, "add": 65}},
            {"sec": 0xFFFFFFFF, "usec": 0, "wirelen": 1514, "data": {"t": "pattern", "n": 20, "mul": 3, "add": 1}},
            {"sec": 3, "usec": 4, "wirelen": 0, "data": {"t": "pattern", "n": 0}},
            {"sec": 5, "usec": 6, "wirelen": 1, "data": {"t": "pattern", "n": 1, "mul": 1, "add": 10}},
        ]
        total = 24 + sum(16 + r["data"]["n"] for r in recs)
        patterns = [
            [["next"]] * 6,
            [["all"], ["next"], ["all"]],
            [["alln", 2], ["next"], ["alln", 5], ["next"]],
        ]
        cases = []
        for at in range(total + 1):
            for pi, calls in enumerate(patterns):
                source = ["reg", "pipe", "stdin"][(at + pi) % 3]
                ep = {"hdr": hdr, "recs": recs, "source": source, "damage": {"kind": "trunc", "at": at} if at < total else None, "calls": calls}
                cases.append({"eps": [ep], "order": [0] * len(calls), "write": None,
                              "chunks": [1, [1]] if (at + pi) % 2 == 0 else [1, [3, 16, 1, 24]], "rseed": 1})
        _SYS = cases
    return _SYS


def generate(rng, tier, idx):
    cases = systematic()
    if idx < len(cases):
        return cases[idx]
    deep = tier == "thorough"
    eps = [_gen_episode(rng, True, deep)]
    if rng.chance(35):
        eps.append(_gen_episode(rng, eps[0]["source"] != "stdin", deep))
        if deep and rng.chance(40):
            eps.append(_gen_episode(rng, all(e["source"] != "stdin" for e in eps), deep))
    order = []
    for i, e in enumerate(eps):
        order += [i] * len(e["calls"])
    rng.shuffle(order)
    write = None
    if rng.chance(45):
        write = {"target": rng.weighted([(55, "w"), (20, "x"), (25, "stdout")]), "ep": rng.below(len(eps))}
        write["reread"] = write["target"] != "stdout" and rng.chance(60)
        # the same packet object written twice: again to the same output (1) or also to a second output (2)
        write["dup"] = rng.weighted([(70, 0), (15, 1), (15, 2)])
        # the output path may already exist with other (longer) content: mode w must replace it
        write["stale"] = 1 if (write["target"] == "w" and rng.chance(35)) else 0
    return {"eps": eps, "order": order, "write": write, "chunks": content.chunk_plan(rng), "rseed": rng.u64() >> 8}


# ---------------------------------------------------------------------------
# the file as presented to p2sh

def presented_bytes(ep):
    hdr = dict(ep["hdr"])
    recs = [dict(r) for r in ep["recs"]]
    dmg = ep["damage"]
    if dmg and dmg["kind"] == "badmagic":
        hdr["magic"] = dmg["magic"]
    if dmg and dmg["kind"] == "caplen":
        j = dmg["rec"]
        if j < len(recs):
            recs[j]["caplen_field"] = (ep["hdr"]["snaplen"] + dmg["over"]) & 0xFFFFFFFF
    data = pcapfmt.file_bytes(hdr, recs)
    if dmg and dmg["kind"] == "trunc":
        data = data[: dmg["at"]]
    return data


def visible(ep):
    """-> (open_ok, complete_records, end_kind) where end_kind in eof|trunc|corrupt"""
    dmg = ep["damage"]
    recs = ep["recs"]
    if dmg is None:
        return True, recs, "eof"
    if dmg["kind"] == "badmagic":
        return False, [], "corrupt"
    if dmg["kind"] == "caplen":
        return True, recs[: dmg["rec"]], "corrupt"
    at = dmg["at"]
    if at < 24:
        return False, [], "trunc"
    offs = pcapfmt.record_offsets(recs)
    k = 0
    while k < len(recs) and offs[k + 1] <= at:
        k += 1
    total = offs[-1]
    return True, recs[:k], ("eof" if at >= total or at == offs[k] else "trunc")


# ---------------------------------------------------------------------------
# rendering

PKT_FMT = '"#%d P {} {} {} {} {}", %s.sec, %s.usec, %s.caplen, %s.wirelen, %s.payload'


def _pkt_line(k, v):
    return "eprintln(" + PKT_FMT % (k, v, v, v, v, v) + ");"


def render(model):
    lines = []
    files = {}
    paths = []
    stdin = None
    plan = {"root": "d/", "paths": paths, "chunks": model["chunks"], "rseed": model["rseed"], "faults": [], "stdout": False}
    w = model["write"]
    if w:
        if w["target"] == "stdout":
            lines.append("let w = pcap_stream(stdout);")
        else:
            lines.append('let w = pcap_open("d/out.pcap", "%s");' % w["target"])
        lines.append('if is_error(w) { eprintln("#3000 E {}", w); } else { eprintln("#3000 V {}", w); }')
        if w.get("dup") == 2:
            lines.append('let w2 = pcap_open("d/out2.pcap", "w");')
            lines.append('if is_error(w2) { eprintln("#3001 E {}", w2); } else { eprintln("#3001 V {}", w2); }')
    for i, ep in enumerate(model["eps"]):
        data = presented_bytes(ep)
        if ep["source"] == "stdin":
            stdin = data
            plan["stdin"] = "p"
            lines.append("let f%d = pcap_stream(stdin);" % i)
        else:
            rel = "d/in%d.pcap" % i
            files[rel] = data
            paths.append([i, "p" if ep["source"] == "pipe" else "r", rel])
            lines.append('let f%d = pcap_open("%s");' % (i, rel))
        lines.append('if is_error(f%d) { eprintln("#%d E {}", f%d); } else { eprintln("#%d H {} {} {} {} {} {} {}", f%d.magic, f%d.major, f%d.minor, f%d.thiszone, f%d.sigfigs, f%d.snaplen, f%d.linktype); }'
                     % (i, 2000 + i, i, 2000 + i, i, i, i, i, i, i, i))
    pos = [0] * len(model["eps"])
    for k, e in enumerate(model["order"]):
        call = model["eps"][e]["calls"][pos[e]]
        pos[e] += 1
        lines.append("time();")
        wr = ""
        if w and w["ep"] == e:
            wr = ' if !is_error(w) { eprintln("#%d W {}", pcap_write(w, VAR)); }' % k
            if w.get("dup") == 1:
                wr = wr + ' if !is_error(w) { eprintln("#%d W {}", pcap_write(w, VAR)); }' % k
            elif w.get("dup") == 2:
                wr = wr + ' if !is_error(w2) { eprintln("#%d W {}", pcap_write(w2, VAR)); }' % k
        if call[0] == "drain":
            body = ('let go = true; while go { let r = pcap_read_next(f%d); if is_error(r) { eprintln("#%d E {}", r); go = false; } else { if r == null { eprintln("#%d N"); go = false; } else { %s%s } } }'
                    % (e, k, k, _pkt_line(k, "r"), wr.replace("VAR", "r") if wr else ""))
        elif call[0] == "next":
            body = ('let r = pcap_read_next(f%d); if is_error(r) { eprintln("#%d E {}", r); } else { if r == null { eprintln("#%d N"); } else { %s%s } }'
                    % (e, k, k, _pkt_line(k, "r"), wr.replace("VAR", "r") if wr else ""))
        else:
            c = "pcap_read_all(f%d)" % e if call[0] == "all" else "pcap_read_all(f%d, %d)" % (e, call[1])
            body = ('let r = %s; if is_error(r) { eprintln("#%d E {}", r); } else { eprintln("#%d L {}", len(r)); let i = 0; while i < len(r) { let q = r[i]; %s%s i = i + 1; } }'
                    % (c, k, k, _pkt_line(k, "q"), wr.replace("VAR", "q") if wr else ""))
        lines.append('if is_error(f%d) { eprintln("#%d X"); } else { %s }' % (e, k, body))
    lines.append("time();")
    lines.append('eprintln("#9999 V DONE");')
    if w and w.get("stale"):
        # a leftover of an earlier run: a valid, much longer capture
        old = [{"sec": 9, "usec": 9, "wirelen": 99, "data": {"t": "pattern", "n": 99, "mul": 1, "add": j}} for j in range(300)]
        files["d/out.pcap"] = pcapfmt.file_bytes(pcapfmt.default_header(), old)
        if w.get("dup") == 2:
            files["d/out2.pcap"] = files["d/out.pcap"]
    conc = {"argv": ["s.p2"], "script": "\n".join(lines) + "\n", "files": files, "dirs": ["d"], "stdin": stdin, "plan": plan}
    if w and w.get("reread"):
        l2 = ['let f = pcap_open("d/out.pcap");',
              'if is_error(f) { eprintln("#2000 E {}", f); } else { eprintln("#2000 H {} {} {} {} {} {} {}", f.magic, f.major, f.minor, f.thiszone, f.sigfigs, f.snaplen, f.linktype);',
              'let r = pcap_read_all(f); if is_error(r) { eprintln("#0 E {}", r); } else { eprintln("#0 L {}", len(r)); let i = 0; while i < len(r) { let q = r[i]; %s i = i + 1; } }' % _pkt_line(0, "q"),
              'let n = pcap_read_next(f); if is_error(n) { eprintln("#1 E {}", n); } else { if n == null { eprintln("#1 N"); } else { eprintln("#1 P"); } } }',
              'eprintln("#9999 V DONE");']
        conc2 = {"argv": ["s.p2"], "script": "\n".join(l2) + "\n", "files": {}, "dirs": [], "stdin": None,
                 "plan": {"root": "d/", "paths": [[50, "r", "d/out.pcap"]], "rseed": model["rseed"], "faults": []}}
        return [conc, conc2]
    return [conc]


# ---------------------------------------------------------------------------
# oracle

def _viol(sig, msg):
    return {"sig": "C19:" + sig, "msg": msg}


def _parse_pkt(rest):
    parts = rest.split(" ", 4)
    sec, usec, caplen, wirelen = (int(x) for x in parts[:4])
    payload = content.parse_byte_array(parts[4])
    return (sec, usec, caplen, wirelen, payload)


def _rec_tuple(rec):
    d = pcapfmt.record_payload(rec)
    return (rec["sec"], rec["usec"], len(d), rec["wirelen"], d)


def _pk_short(t):
    return "(sec=%d usec=%d caplen=%d wirelen=%d payload=%s)" % (t[0], t[1], t[2], t[3], t[4][:8].hex() + ("..." if len(t[4]) > 8 else ""))


def check(model, results):
    res = results[0]
    viols = []
    stats = {}

    def inc(k, n=1):
        stats[k] = stats.get(k, 0) + n

    obs, other = script.parse_obs(res.stderr)
    if script.panic_or_crash(res.stderr):
        viols.append(_viol("process:panic", "panic: %r" % res.stderr[-300:]))
    if res.status != ("exit", 0):
        viols.append(_viol("process:status", "status %r; stderr tail %r" % (res.status, res.stderr[-300:])))
    if other:
        viols.append(_viol("process:stderr", "unexpected stderr lines: %r" % [l[:200] for l in other[:3]]))
    if 9999 not in obs:
        viols.append(_viol("process:notdone", "program did not reach its end; stderr tail %r" % res.stderr[-300:]))
    eps = model["eps"]
    w = model["write"]
    states = []
    nontrivial = bool(w)
    for i, ep in enumerate(eps):
        ok, vis, endk = visible(ep)
        st = {"ok": ok, "vis": [_rec_tuple(r) for r in vis], "i": 0, "endk": endk, "poison": False, "bad": False}
        states.append(st)
        if ep["damage"]:
            nontrivial = True
            dk = ep["damage"]["kind"]
            if dk == "trunc":
                at = ep["damage"]["at"]
                offs = pcapfmt.record_offsets(ep["recs"])
                if at < 24:
                    inc("probe.trunc_in_global_header")
                elif at in offs:
                    inc("probe.trunc_on_boundary")
                else:
                    j = max(k for k in range(len(offs)) if offs[k] <= at)
                    inc("probe.trunc_in_record_header" if at - offs[j] < 16 else "probe.trunc_in_record_data")
            elif dk == "caplen":
                inc("probe.corrupt_caplen")
            elif dk == "badmagic":
                inc("probe.bad_magic")
        if not ep["recs"]:
            inc("probe.zero_records")
        if len(ep["recs"]) >= 400:
            inc("probe.long_file")
        if ep["hdr"]["magic"] == pcapfmt.MAGIC_NS:
            inc("probe.nanosecond_magic")
        o = obs.get(2000 + i)
        if not o:
            viols.append(_viol("open:missing", "no observation for opening source %d" % i))
            st["bad"] = True
            continue
        tag, rest = o[0]
        if ok:
            if tag != "H":
                viols.append(_viol("open:error:%s" % ep["source"], "source %d (%s): well-formed header but open returned %s %r" % (i, ep["source"], tag, rest[:100])))
                st["bad"] = True
            else:
                h = ep["hdr"]
                want = "%d %d %d %d %d %d %d" % (h["magic"], h["vmaj"], h["vmin"], h["zone"], h["sigfigs"], h["snaplen"], h["linktype"])
                if rest != want:
                    viols.append(_viol("open:header_fields", "source %d: header fields %r, expected %r" % (i, rest, want)))
        else:
            if tag != "E":
                viols.append(_viol("open:noerror:%s" % (ep["damage"] or {}).get("kind"), "source %d: damaged global header (%r) but open returned %s %r" % (i, ep["damage"], tag, rest[:80])))
                st["bad"] = True

    # chunk probes from the trace (offsets once per source, bisect per event)
    import bisect
    offs_by_src = [pcapfmt.record_offsets(ep["recs"]) for ep in eps]
    stdin_src = [j for j, ep in enumerate(eps) if ep["source"] == "stdin"]
    for e in res.events:
        if e.call == "R" and e.action == 100:
            nontrivial = True
            inc("fired.chunk")
            if e.target == -2:
                src = stdin_src[0] if stdin_src else None
            else:
                src = e.target if 0 <= e.target < len(eps) and eps[e.target]["source"] != "stdin" else None
            if src is not None:
                b = e.off + e.res
                offs = offs_by_src[src]
                if b < 24:
                    inc("probe.chunk_in_global_header")
                elif b < offs[-1]:
                    j = bisect.bisect_right(offs, b) - 1
                    if offs[j] != b:
                        inc("probe.chunk_in_record_header" if b - offs[j] < 16 else "probe.chunk_in_record_data")

    written = []     # tuples handed to pcap_write, in order
    written2 = []    # ... to the second output (dup == 2)
    pos = [0] * len(eps)
    for k, e in enumerate(model["order"]):
        ep = eps[e]
        st = states[e]
        call = ep["calls"][pos[e]]
        pos[e] += 1
        inc("ops." + call[0])
        o = obs.get(k)
        if st["bad"]:
            continue
        if not o:
            viols.append(_viol("%s:missing" % call[0], "call %d %r on source %d: no observation" % (k, call, e)))
            st["bad"] = True
            continue
        tag, rest = o[0]
        if not st["ok"]:
            if tag != "X":
                viols.append(_viol("%s:guard" % call[0], "call %d ran although the handle is an error" % k))
            continue
        if tag == "X":
            viols.append(_viol("%s:guard" % call[0], "call %d skipped although the handle was good" % k))
            st["bad"] = True
            continue
        if st["poison"]:
            # after a corrupt record header the position is garbage: not asserted; whatever
            # the script wrote is still expected in the output file
            if w and w["ep"] == e:
                for t, r in o:
                    if t == "P":
                        try:
                            pp = _parse_pkt(r)
                        except (ValueError, IndexError):
                            continue
                        written.append(pp)
                        if w.get("dup") == 1:
                            written.append(pp)
                        elif w.get("dup") == 2:
                            written2.append(pp)
            continue
        rem = st["vis"][st["i"]:]
        at_end = len(rem) == 0
        if at_end:
            inc("probe.read_past_end")
        # parse packets printed by this call (and the pcap_write results)
        pk = []
        wr = []
        garbled = False
        for t, r in o:
            if t == "P":
                try:
                    pk.append(_parse_pkt(r))
                except (ValueError, IndexError):
                    garbled = True
            elif t == "W":
                wr.append(r)
        if garbled:
            viols.append(_viol("%s:garbled" % call[0], "call %d: packet line could not be parsed" % k))
            st["bad"] = True
            continue
        for p in pk:
            if p[2] != len(p[4]):
                viols.append(_viol("%s:caplen_vs_payload" % call[0], "call %d: caplen %d but payload has %d bytes" % (k, p[2], len(p[4]))))
            if len(p[4]) == 0:
                inc("probe.empty_payload")
        if w and w["ep"] == e:
            dup = w.get("dup", 0)
            per = 2 if dup else 1
            for j, p in enumerate(pk):
                written.append(p)
                if dup == 1:
                    written.append(p)
                elif dup == 2:
                    written2.append(p)
                for r in wr[j * per:(j + 1) * per]:
                    if r != str(16 + len(p[4])):
                        viols.append(_viol("write:count", "call %d: pcap_write of a %d-byte record returned %r" % (k, len(p[4]), r[:60])))
            if len(wr) != len(pk) * per:
                viols.append(_viol("write:missing", "call %d: %d packets read but %d pcap_write results (expected %d)" % (k, len(pk), len(wr), len(pk) * per)))
        srck = ep["source"]
        if call[0] == "drain":
            inc("probe.drain_loop")
            last_tag = o[-1][0]
            if pk != rem:
                cls = "short" if rem[:len(pk)] == pk else ("extra" if pk[:len(rem)] == rem else "wrong")
                viols.append(_viol("drain:%s:%s" % (cls, srck), "call %d: a pcap_read_next loop on source %d (%s; %d records visible, cursor %d) yielded %d records, expected %d%s" % (
                    k, e, srck, len(st["vis"]), st["i"], len(pk), len(rem),
                    "" if cls != "wrong" else "; first difference: expected %s got %s" % next(((_pk_short(a), _pk_short(b)) for a, b in zip(rem, pk) if a != b), ("?", "?")))))
                st["bad"] = True
                continue
            st["i"] += len(rem)
            if st["endk"] == "eof" and last_tag != "N":
                viols.append(_viol("drain:not_null_at_eof:%s" % srck, "call %d: the loop ended with %s instead of null at the end of a well-formed file" % (k, last_tag)))
                st["bad"] = True
            elif st["endk"] == "corrupt":
                if last_tag != "E":
                    viols.append(_viol("drain:corrupt_not_error:%s" % srck, "call %d: the loop met a record whose caplen exceeds snaplen and ended with %s" % (k, last_tag)))
                st["poison"] = True
            elif last_tag not in ("N", "E"):
                viols.append(_viol("drain:bad_end:%s" % srck, "call %d: loop ended with %s" % (k, last_tag)))
            continue
        if call[0] == "next":
            if not at_end:
                want = rem[0]
                if tag != "P" or pk[:1] != [want]:
                    viols.append(_viol("next:wrong_record:%s" % srck, "call %d pcap_read_next on source %d (%s, record %d of %d visible): expected %s, got %s %s" % (
                        k, e, srck, st["i"], len(st["vis"]), _pk_short(want), tag, _pk_short(pk[0]) if pk else rest[:80])))
                    st["bad"] = True
                    continue
                st["i"] += 1
            else:
                if st["endk"] == "eof":
                    if tag != "N":
                        viols.append(_viol("next:not_null_at_eof:%s" % srck, "call %d pcap_read_next at end of a well-formed file returned %s %r" % (k, tag, rest[:80])))
                        st["bad"] = True
                        continue
                elif st["endk"] == "trunc":
                    if tag not in ("N", "E"):
                        viols.append(_viol("next:extra_after_truncation:%s" % srck, "call %d pcap_read_next after the %d complete records of a truncated file returned %s %s" % (k, len(st["vis"]), tag, _pk_short(pk[0]) if pk else rest[:80])))
                        st["bad"] = True
                        continue
                else:  # corrupt record header next
                    if tag != "E":
                        viols.append(_viol("next:corrupt_not_error:%s" % srck, "call %d pcap_read_next on a record whose caplen exceeds snaplen returned %s %s" % (k, tag, _pk_short(pk[0]) if pk else rest[:80])))
                    st["poison"] = True
                    continue
        else:
            n = None if call[0] == "all" else call[1]
            if n == 0:
                inc("probe.read_all_n_zero")
            if n is not None and n >= 10 ** 6:
                inc("probe.read_all_huge_n")
            if n is not None and n > len(rem):
                inc("probe.read_all_n_gt_remaining")
            take = rem if n is None else rem[:n]
            reaches_end = n is None or n > len(rem)
            if reaches_end and st["endk"] == "corrupt":
                # narrow reading: the error object may replace the partial array; never wrong/extra records
                st["poison"] = True
                if tag == "E":
                    continue
                if tag != "L" or pk != take:
                    viols.append(_viol("all:corrupt_wrong:%s" % srck, "call %d %r meeting a corrupt record: expected an error object or exactly the %d good records, got %s with %d packets" % (k, call, len(take), tag, len(pk))))
                continue
            if tag == "E":
                viols.append(_viol("all:error:%s:%s" % (st["endk"] if reaches_end else "mid", srck), "call %d %r on source %d: returned an error object %r although %d complete records remain" % (k, call, e, rest[:80], len(rem))))
                st["bad"] = True
                continue
            if tag != "L":
                viols.append(_viol("all:type", "call %d: tag %s" % (k, tag)))
                st["bad"] = True
                continue
            try:
                cnt = int(rest)
            except ValueError:
                cnt = -1
            if cnt != len(pk):
                viols.append(_viol("all:count_vs_printed", "call %d: len() says %d, %d packets printed" % (k, cnt, len(pk))))
            if pk != take:
                cls = "short" if take[:len(pk)] == pk else ("extra" if pk[:len(take)] == take else "wrong")
                viols.append(_viol("all:%s:%s" % (cls, srck), "call %d %r on source %d (%s; %d records visible, cursor %d): expected %d records, got %d%s" % (
                    k, call, e, srck, len(st["vis"]), st["i"], len(take), len(pk),
                    "" if cls != "wrong" else "; first difference: expected %s got %s" % next(((_pk_short(a), _pk_short(b)) for a, b in zip(take, pk) if a != b), ("?", "?")))))
                st["bad"] = True
                continue
            st["i"] += len(take)

    # the written file
    if w:
        o = obs.get(3000)
        if not o or o[0][0] != "V":
            viols.append(_viol("write:open", "opening the output pcap failed: %r" % (o,)))
        else:
            if w["target"] == "stdout":
                out = res.stdout
                inc("probe.written_stdout")
            else:
                out = res.files.get("d/out.pcap")
            if out is None:
                viols.append(_viol("write:nofile", "d/out.pcap does not exist after the program ended"))
            else:
                hdr, recs, trailing = pcapfmt.parse(out)
                want_hdr = pcapfmt.default_header()
                if hdr != want_hdr:
                    viols.append(_viol("write:header", "written global header %r, expected the documented default %r" % (hdr, want_hdr)))
                got = [tuple(r) for r in recs]
                if got != written or trailing:
                    viols.append(_viol("write:records:%s" % w["target"], "written file has %d records (+%d trailing bytes), %d packets were written; %s" % (
                        len(got), trailing, len(written), next(("first difference at %d: %s vs %s" % (j, _pk_short(a), _pk_short(b)) for j, (a, b) in enumerate(zip(written, got)) if a != b), "prefix equal"))))
                if any(len(p[4]) > 65535 for p in written):
                    inc("probe.record_gt_65535")
            if w.get("dup"):
                inc("probe.packet_written_twice")
            if w.get("stale"):
                inc("probe.output_path_existed")
            if w.get("dup") == 2:
                out2 = res.files.get("d/out2.pcap")
                hdr2, recs2, trailing2 = pcapfmt.parse(out2 or b"")
                if out2 is None or hdr2 != pcapfmt.default_header() or [tuple(r) for r in recs2] != written2 or trailing2:
                    viols.append(_viol("write:second_output", "the second output file (each packet written to it after it was written to the first) has %s records (+%d trailing bytes), expected %d" % (
                        "no" if out2 is None else len(recs2), trailing2, len(written2))))
        if w.get("reread") and len(results) > 1 and results[1] is not None:
            r2 = results[1]
            inc("probe.written_reread")
            obs2, other2 = script.parse_obs(r2.stderr)
            big = [j for j, p in enumerate(written) if len(p[4]) > 65535]
            if r2.status != ("exit", 0) or script.panic_or_crash(r2.stderr) or 9999 not in obs2:
                viols.append(_viol("reread:process", "re-reading process: status %r, stderr tail %r" % (r2.status, r2.stderr[-200:])))
            else:
                o = obs2.get(0)
                pk = []
                for t, r in (o or []):
                    if t == "P":
                        try:
                            pk.append(_parse_pkt(r))
                        except (ValueError, IndexError):
                            pk.append(None)
                if big:
                    # the written header always says snaplen 65535: a record above it is rejected on re-read
                    if not (o and o[0][0] == "L" and pk == written):
                        viols.append(_viol("reread:caplen_gt_65535", "a record of %d bytes was written to a file whose header says snaplen 65535; reading it back gives %s instead of the %d records" % (
                            len(written[big[0]][4]), (o[0][0] + " " + o[0][1][:80]) if o else "nothing", len(written))))
                else:
                    if not o or o[0][0] != "L" or pk != written:
                        viols.append(_viol("reread:records", "reading the written file back: expected the %d written records, got %s with %d packets" % (len(written), o[0][0] if o else "nothing", len(pk))))
                    o1 = obs2.get(1)
                    if not o1 or o1[0][0] != "N":
                        viols.append(_viol("reread:not_null_at_end", "pcap_read_next after reading everything back returned %r" % (o1,)))
    hist = "|".join(["%s:%s" % (ep["source"], (ep["damage"] or {}).get("kind", "ok")) for ep in eps] +
                    ["%d%s" % (e, obs.get(k, [("?", "")])[0][0]) for k, e in enumerate(model["order"])] +
                    ["w:%s" % (w["target"] if w else "-")] +
                    ["%s%d%s" % (e.call, min(e.target, 9), "s" if (e.call == "R" and 0 < e.res < e.req) else ("z" if e.res == 0 else "f")) for e in res.events if e.call == "R"][:60])
    return {"violations": viols, "stats": stats, "hist": hist, "nontrivial": nontrivial, "ops": len(model["order"])}


# ---------------------------------------------------------------------------

def _rebuild_order(m):
    order = []
    for i, e in enumerate(m["eps"]):
        order += [i] * len(e["calls"])
    return order


def shrink(model):
    m = model
    if len(m["eps"]) > 1:
        for i in range(len(m["eps"])):
            eps = [e for j, e in enumerate(m["eps"]) if j != i]
            c = dict(m, eps=eps)
            c["order"] = _rebuild_order(c)
            if m["write"]:
                c["write"] = dict(m["write"], ep=0) if m["write"]["ep"] != i else None
            yield c
    if m["write"]:
        yield dict(m, write=None)
        if m["write"].get("reread"):
            yield dict(m, write=dict(m["write"], reread=False))
    cyc, sizes = m["chunks"]
    if sizes:
        yield dict(m, chunks=[0, []])
        if len(sizes) > 1:
            yield dict(m, chunks=[cyc, sizes[: len(sizes) // 2]])
    for i, ep in enumerate(m["eps"]):
        def with_ep(nep):
            eps = list(m["eps"])
            eps[i] = nep
            c = dict(m, eps=eps)
            c["order"] = _rebuild_order(c)
            return c
        # fewer calls
        nc = len(ep["calls"])
        if nc > 1:
            yield with_ep(dict(ep, calls=ep["calls"][: nc // 2]))
            for j in range(nc):
                yield with_ep(dict(ep, calls=ep["calls"][:j] + ep["calls"][j + 1:]))
        # fewer records (keep damage consistent)
        nr = len(ep["recs"])
        if nr > 0 and (not ep["damage"] or ep["damage"]["kind"] == "badmagic"):
            yield with_ep(dict(ep, recs=ep["recs"][: nr // 2]))
            yield with_ep(dict(ep, recs=ep["recs"][:-1]))
            yield with_ep(dict(ep, recs=ep["recs"][1:]))
        elif nr > 0 and ep["damage"]["kind"] == "caplen" and ep["damage"]["rec"] < nr - 1:
            yield with_ep(dict(ep, recs=ep["recs"][: ep["damage"]["rec"] + 1]))
        elif nr > 0 and ep["damage"]["kind"] == "trunc":
            offs = pcapfmt.record_offsets(ep["recs"])
            keep = next((k for k in range(nr) if offs[k + 1] >= ep["damage"]["at"]), nr - 1) + 1
            if keep < nr:
                yield with_ep(dict(ep, recs=ep["recs"][:keep]))
        # smaller payloads
        for j, r in enumerate(ep["recs"]):
            if r["data"]["n"] > 64 and not ep["damage"]:
                recs = list(ep["recs"])
                recs[j] = dict(r, data=dict(r["data"], n=r["data"]["n"] // 2))
                yield with_ep(dict(ep, recs=recs))
        if ep["source"] == "pipe":
            yield with_ep(dict(ep, source="reg"))
        if ep["damage"]:
            yield with_ep(dict(ep, damage=None))
        if ep["hdr"] != pcapfmt.default_header(ep["hdr"]["magic"]) and not ep["damage"]:
            h = pcapfmt.default_header(ep["hdr"]["magic"])
            h["snaplen"] = ep["hdr"]["snaplen"]
            yield with_ep(dict(ep, hdr=h))


def sample(model, results):
    res = results[0]
    concs = render(model)
    from sim.runner import plan_text
    return {
        "sources": [{"source": e["source"], "records": len(e["recs"]), "damage": e["damage"], "header": e["hdr"], "calls": e["calls"]} for e in model["eps"]],
        "write": model["write"],
        "chunks": model["chunks"],
        "script_head": concs[0]["script"][:1200],
        "plan": plan_text(concs[0]["plan"]),
        "status": list(res.status),
        "history_head": res.trace[:1000],
        "stderr_head": res.stderr[:400].decode("utf-8", "replace"),
    }
