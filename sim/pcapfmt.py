"""Legacy pcap format: reference writer/parser used by the models (little-endian files only,
which is what p2sh reads and writes)."""
import struct

from . import content
from .prng import Rng

MAGIC_US = 0xA1B2C3D4
MAGIC_NS = 0xA1B23C4D


def global_header(h):
    return struct.pack("<IHHiIII", h["magic"], h["vmaj"], h["vmin"], h["zone"], h["sigfigs"], h["snaplen"], h["linktype"])


def default_header(magic=MAGIC_US):
    return {"magic": magic, "vmaj": 2, "vmin": 4, "zone": 0, "sigfigs": 0, "snaplen": 65535, "linktype": 1}


def record_payload(rec):
    """rec = {sec, usec, wirelen, data: content-spec}; caplen = len(data)"""
    return content.expand(rec["data"])


def record_bytes(rec):
    data = record_payload(rec)
    caplen = rec.get("caplen_field", len(data))
    return struct.pack("<IIII", rec["sec"], rec["usec"], caplen, rec["wirelen"]) + data


def file_bytes(hdr, recs):
    out = bytearray(global_header(hdr))
    for r in recs:
        out += record_bytes(r)
    return bytes(out)


def record_offsets(recs):
    """byte offset at which each record starts, plus the end offset"""
    offs = []
    p = 24
    for r in recs:
        offs.append(p)
        p += 16 + len(record_payload(r))
    offs.append(p)
    return offs


def parse(data):
    """-> (header dict | None, [ (sec, usec, caplen, wirelen, payload) ], trailing_garbage_len).
    Stops at the first incomplete record."""
    if len(data) < 24:
        return None, [], len(data)
    magic, vmaj, vmin, zone, sigfigs, snaplen, linktype = struct.unpack("<IHHiIII", data[:24])
    hdr = {"magic": magic, "vmaj": vmaj, "vmin": vmin, "zone": zone, "sigfigs": sigfigs, "snaplen": snaplen, "linktype": linktype}
    recs = []
    p = 24
    while p + 16 <= len(data):
        sec, usec, caplen, wirelen = struct.unpack("<IIII", data[p:p + 16])
        if p + 16 + caplen > len(data):
            break
        recs.append((sec, usec, caplen, wirelen, data[p + 16:p + 16 + caplen]))
        p += 16 + caplen
    return hdr, recs, len(data) - p


def gen_header(rng, plain=False):
    magic = MAGIC_US if rng.chance(60) else MAGIC_NS
    if plain:
        return default_header(magic)
    snaplen = rng.choice([64, 256, 1514, 65535, 65535, 262144])
    if rng.chance(20):
        # full-range header values: every field is an opaque 16/32-bit quantity to a pcap reader
        return {
            "magic": magic,
            "vmaj": rng.choice([0, 2, 0x7FFF, 0xFFFF, rng.range(0, 0xFFFF)]),
            "vmin": rng.choice([0, 4, 0xFFFF, rng.range(0, 0xFFFF)]),
            "zone": rng.choice([-2147483648, 2147483647, -1, rng.range(-86400, 86400)]),
            "sigfigs": rng.choice([0xFFFFFFFF, 0x80000000, rng.range(0, 0xFFFFFFFF)]),
            "snaplen": rng.choice([65536, 262144, 0x7FFFFFFF, 0xFFFFFFFF, rng.range(70000, 0xFFFFFFFF)]),
            "linktype": rng.choice([0x44000001, 0x04000001, 0xFFFFFFFF, 0x80000001, 276, rng.range(0, 0xFFFFFFFF)]),
        }
    return {
        "magic": magic,
        "vmaj": rng.choice([2, 2, 2, 1, 3]),
        "vmin": rng.choice([4, 4, 4, 0, 3]),
        "zone": rng.choice([0, 0, 3600, -3600, -18000]),
        "sigfigs": rng.choice([0, 0, 0, 6, 9]),
        "snaplen": snaplen,
        "linktype": rng.choice([1, 1, 1, 0, 101, 113, 228]),
    }


def gen_record(rng, snaplen, allow_huge=True):
    n = rng.weighted([
        (6, 0), (6, 1), (20, rng.range(14, 100)), (14, rng.range(60, 1514)), (6, 1514),
        (12, rng.range(4080, 4112) - 16), (12, rng.range(8176, 8208) - 16), (6, rng.range(8176 - 24, 8208 - 24) - 16),
        (5, rng.range(2000, 9000)), (2 if allow_huge else 0, rng.range(65000, 70000)),
    ])
    n = max(0, min(n, snaplen))
    wire = rng.weighted([(60, n), (30, n + rng.range(0, 2000)), (10, rng.range(0, 0xFFFFFFFF))])
    return {
        "sec": rng.weighted([(50, rng.range(0, 2_000_000_000)), (25, rng.range(0, 100)), (15, 0xFFFFFFFF), (10, rng.range(0x7FFFFFF0, 0x80000010))]),
        "usec": rng.weighted([(60, rng.range(0, 999_999)), (25, rng.range(0, 999_999_999)), (15, 0xFFFFFFFF)]),
        "wirelen": wire & 0xFFFFFFFF,
        "data": {"t": rng.choice(["bin", "bin", "pattern"]), "n": n, "seed": rng.u64() >> 16},
    }
