"""Campaign engine: seeded search over (workload x schedule/fault plan), oracle evaluation,
determinism self-check, minimisation, replay files, evidence."""
import base64
import hashlib
import json
import multiprocessing
import os
import shutil
import sys
import tempfile
import time

from . import build, runner
from .prng import Rng, derive

VERIF = build.VERIF
DEFAULT_SEED = 20260921
KNOWN_FILE = os.path.join(VERIF, "known_findings.json")
REPLAY_DIR = os.environ.get("P2SIM_REPLAYS", os.path.join(VERIF, "replays"))
EVIDENCE_DIR = os.environ.get("P2SIM_EVIDENCE", os.path.join(VERIF, "evidence"))

COMPONENTS = {
    "real": [
        "p2sh release binary built from /repo's working tree (scanner, parser, compiler, VM, builtins, main.rs drivers)",
        "Rust std I/O stack (File, BufReader, BufWriter, Stdin, Stdout/LineWriter, Stderr), allocator",
        "Linux kernel + tmpfs for regular files, /dev/full, directories",
    ],
    "simulated": [
        "read(2) transfer sizes on pipe-like descriptors (chunk schedule)",
        "errno results of read/write/open (EIO, ENOSPC incl. after partial write, EPIPE, EACCES, EMFILE, EINTR)",
        "process death (SIGKILL at a chosen system call or between operations)",
        "getrandom (HashMap keys, rand)", "CLOCK_REALTIME and sleeping (virtual clock)",
    ],
    "stub": [],
}


def base_tmp():
    for cand in ("/dev/shm", None):
        try:
            d = tempfile.mkdtemp(prefix="p2sim.", dir=cand)
            return d
        except OSError:
            continue
    raise build.HarnessError("no scratch directory")


def load_known(prop_id):
    try:
        with open(KNOWN_FILE) as f:
            data = json.load(f)
    except (OSError, ValueError):
        return []
    return [e for e in data.get("findings", []) if e.get("property") == prop_id and e.get("status") == "known"]


def match_known(known, sig):
    for e in known:
        s = e.get("signature", "")
        if s and (sig == s or (s.endswith("*") and sig.startswith(s[:-1]))):
            return e
    return None


# ---------------------------------------------------------------------------
# one simulated run (executed inside a worker)

_W = {}


def _worker_init(mod_name, base, counter):
    import importlib
    with counter.get_lock():
        k = counter.value
        counter.value += 1
    wd = os.path.join(base, "w%d" % k)
    os.makedirs(wd, exist_ok=True)
    _W["wd"] = wd
    _W["mod"] = importlib.import_module(mod_name)


def execute_model(mod, model, wd):
    """Render and run all phases of a model; returns list of Results."""
    if hasattr(mod, "execute"):
        return mod.execute(model, wd)
    concs = mod.render(model)
    if isinstance(concs, dict):
        concs = [concs]
    results = []
    for i, conc in enumerate(concs):
        if conc is None:
            results.append(None)
            continue
        if callable(conc):
            conc = conc(results)
            if conc is None:
                results.append(None)
                continue
        results.append(runner.run_concrete(wd, conc, clean=(i == 0 or conc.get("clean", False))))
    return results


def fingerprint(results):
    h = hashlib.sha256()
    for r in results:
        if r is None:
            h.update(b"<none>")
            continue
        h.update(repr(r.status).encode())
        h.update(b"\0O"); h.update(r.stdout)
        h.update(b"\0E"); h.update(r.stderr)
        h.update(b"\0T"); h.update(r.trace.encode())
        for k in sorted(r.files):
            h.update(b"\0F"); h.update(k.encode()); h.update(b"\0"); h.update(r.files[k])
    return h.hexdigest()


def run_index(mod, seed, tier, idx, wd, want_sample=False):
    rs = derive(seed, mod.ID, idx)
    rng = Rng(rs)
    model = mod.generate(rng, tier, idx)
    results = execute_model(mod, model, wd)
    out = mod.check(model, results)
    rec = {
        "idx": idx,
        "rseed": rs,
        "violations": out.get("violations", []),
        "stats": out.get("stats", {}),
        "hist": out.get("hist", ""),
        "nontrivial": bool(out.get("nontrivial", False)),
        "ops": out.get("ops", 0),
        "fp": fingerprint(results),
        "slept": sum(r.slept for r in results if r is not None),
        "procs": sum(1 for r in results if r is not None),
        # a process that ran into the CPU-time limit (a runaway in a broken tree): where exactly
        # the kernel stops it is not something the simulator decides
        "limited": any(r is not None and r.status == ("signal", 24) for r in results),
    }
    if want_sample or rec["violations"]:
        rec["model"] = model
    if want_sample:
        rec["sample"] = mod.sample(model, results)
    return rec


def _worker_run(args):
    seed, tier, idx, want_sample = args
    try:
        return run_index(_W["mod"], seed, tier, idx, _W["wd"], want_sample)
    except Exception as e:  # harness problem, not a violation
        import traceback
        return {"idx": idx, "harness_error": "%s\n%s" % (e, traceback.format_exc())}


# ---------------------------------------------------------------------------
# minimisation

def violation_sigs(mod, model, wd):
    results = execute_model(mod, model, wd)
    out = mod.check(model, results)
    return [v["sig"] for v in out.get("violations", [])], out, results


def shrink(mod, model, sig, wd, max_runs=600, log=None, deadline=None):
    """Greedy structural minimisation: keep a candidate iff the same signature persists.
    Bounded by a number of candidate runs and by a wall-clock deadline (a broken tree can make
    every candidate slow, e.g. a REPL that no longer answers)."""
    runs = 0
    improved = True
    while improved and runs < max_runs:
        improved = False
        for cand in mod.shrink(model):
            if deadline is not None and time.time() > deadline:
                runs = max_runs
                break
            runs += 1
            try:
                sigs, _, _ = violation_sigs(mod, cand, wd)
            except Exception:
                sigs = []
            if sig in sigs:
                model = cand
                improved = True
                break
            if runs >= max_runs:
                break
    if log:
        log("  minimised with %d candidate runs" % runs)
    return model


def b64(b):
    return base64.b64encode(b).decode()


def concrete_to_json(conc):
    if conc is None or callable(conc):
        return None
    return {
        "argv": conc.get("argv", []),
        "script": conc.get("script"),
        "files_b64": {k: b64(v) for k, v in conc.get("files", {}).items()},
        "dirs": conc.get("dirs", []),
        "stdin_b64": b64(conc.get("stdin") or b""),
        "plan_text": runner.plan_text(conc.get("plan", {})),
    }


def write_replay(mod, model, sig, msg, seed, idx, wd):
    os.makedirs(REPLAY_DIR, exist_ok=True)
    results = execute_model(mod, model, wd)
    out = mod.check(model, results)
    concs = mod.render(model)
    if isinstance(concs, dict):
        concs = [concs]
    name = "%s-%d-%d-%s.json" % (mod.ID, seed, idx, hashlib.sha1(sig.encode()).hexdigest()[:8])
    path = os.path.join(REPLAY_DIR, name)
    doc = {
        "property": mod.ID,
        "seed": seed,
        "run_index": idx,
        "signature": sig,
        "message": msg,
        "model": model,
        "violations_on_replay": out.get("violations", []),
        "phases": [
            {
                "concrete": concrete_to_json(c),
                "status": (r.status if r is not None else None),
                "history": (r.trace if r is not None else None),
                "stderr": (r.stderr[-20000:].decode("utf-8", "replace") if r is not None else None),
                "stdout_b64": (b64(r.stdout[-20000:]) if r is not None else None),
            }
            for c, r in zip(concs, results)
        ],
    }
    with open(path, "w") as f:
        json.dump(doc, f, indent=1, default=lambda o: repr(o))
    return path


def replay(path):
    import importlib
    with open(path) as f:
        doc = json.load(f)
    mod = importlib.import_module("props.%s" % doc["property"].lower())
    build.ensure_build()
    base = base_tmp()
    try:
        wd = os.path.join(base, "w0")
        os.makedirs(wd)
        sigs, out, results = violation_sigs(mod, doc["model"], wd)
    finally:
        shutil.rmtree(base, ignore_errors=True)
    for v in out.get("violations", []):
        print("  replayed: %s -- %s" % (v["sig"], v["msg"][:300]))
    if doc["signature"] in sigs:
        known = match_known(load_known(doc["property"]), doc["signature"])
        if known:
            print("KNOWN-FINDING: property=%s %s" % (doc["property"], known.get("what", doc["signature"])))
            return 0
        print("VIOLATION property=%s replay=%s" % (doc["property"], path))
        return 1
    print("replay of %s: signature %r not reproduced on the current tree" % (path, doc["signature"]))
    return 0


# ---------------------------------------------------------------------------
# campaign

def campaign(mod, tier, seed, workers=None, max_runs=None, time_cap=None, out=sys.stdout, write_evidence=True):
    t0 = time.time()
    log = lambda s: (out.write(s + "\n"), out.flush())
    log("seed=%d property=%s tier=%s" % (seed, mod.ID, tier))
    build.ensure_build()
    t_search = time.time()
    budget = mod.BUDGET[tier]
    nruns = max_runs if max_runs is not None else budget["runs"]
    cap = time_cap if time_cap is not None else budget["time_cap"]
    workers = workers or int(os.environ.get("P2SIM_WORKERS", "8"))
    known = load_known(mod.ID)
    base = base_tmp()
    counter = multiprocessing.Value("i", 0)
    # sampled cases written into the evidence: two from the start (the systematic block, if the
    # property has one) and two from the seeded random part
    sysn = len(mod.systematic()) if hasattr(mod, "systematic") else 0
    sample_idx = sorted(set(i for i in (0, 1, sysn, sysn + 1, sysn + 2) if i < nruns))[:5]
    recs = {}
    harness_errors = []
    try:
        ctx = multiprocessing.get_context("fork")
        pool = ctx.Pool(workers, initializer=_worker_init, initargs=(mod.__name__, base, counter))
        try:
            tasks = ((seed, tier, i, i in sample_idx) for i in range(nruns))
            stopped_early = False
            contig = 0   # length of the contiguous prefix of completed run indices
            for rec in pool.imap_unordered(_worker_run, tasks, chunksize=4):
                if "harness_error" in rec:
                    harness_errors.append(rec)
                else:
                    recs[rec["idx"]] = rec
                # the wall-clock cap is a safety net only: it does not include the build, and it never
                # cuts a batch below a minimum number of runs (a slow machine must not turn into a
                # vacuous "clean" verdict)
                while contig in recs:
                    contig += 1
                if time.time() - t_search > cap and contig >= min(nruns, budget.get("min_runs", 300)):
                    stopped_early = True
                    break
            pool.terminate()
        finally:
            pool.join()
        # imap_unordered + early stop: keep only the contiguous prefix so the set of runs is
        # a deterministic function of how far we got, not of worker timing.
        done = 0
        while done in recs:
            done += 1
        recs = {i: recs[i] for i in range(done)}
        if harness_errors:
            e = sorted(harness_errors, key=lambda r: r["idx"])[0]
            raise build.HarnessError("run %d: %s" % (e["idx"], e["harness_error"]))
        if done == 0:
            raise build.HarnessError("no simulated run completed")

        wd = os.path.join(base, "main")
        os.makedirs(wd, exist_ok=True)

        # determinism self-check: re-execute a sample of runs here (different process,
        # different directory) and compare everything observable.
        step = max(1, done // budget.get("determinism_sample", 40))
        rechecked = 0
        for i in range(0, done, step):
            r2 = run_index(mod, seed, tier, i, wd)
            rechecked += 1
            if r2["fp"] != recs[i]["fp"] and (r2.get("limited") or recs[i].get("limited")):
                continue   # stopped by the CPU-time limit: not comparable (and reported by the oracle as a violation)
            if r2["fp"] != recs[i]["fp"]:
                raise build.HarnessError("nondeterminism: run %d (seed %d) gave two different executions" % (i, seed))

        # aggregate
        stats = {}
        hists = set()
        nontriv = set()
        ops = 0
        slept = 0
        procs = 0
        by_sig = {}
        for i in range(done):
            r = recs[i]
            for k, v in r["stats"].items():
                stats[k] = stats.get(k, 0) + v
            hists.add(r["hist"])
            if r["nontrivial"]:
                nontriv.add(r["hist"])
            ops += r["ops"]
            slept += r["slept"]
            procs += r["procs"]
            for v in r["violations"]:
                by_sig.setdefault(v["sig"], []).append((i, v))

        # scenarios the generator got wrong (e.g. a REPL history the reference interpreter rejects) are
        # not verdicts: a handful is skipped and counted, more than 1 % of the runs is a harness error
        gen_sigs = [s for s in by_sig if ":generator:" in s]
        invalid_runs = sorted(set(i for s in gen_sigs for i, _ in by_sig[s]))
        if len(invalid_runs) > max(3, done // 100):
            i, v = by_sig[gen_sigs[0]][0]
            raise build.HarnessError("the generator produced %d invalid scenarios (first: run %d, %s): %s" % (len(invalid_runs), i, gen_sigs[0], v["msg"][:500]))
        if invalid_runs:
            log("note: %d generated scenario(s) were invalid and skipped (runs %s): %s" % (len(invalid_runs), invalid_runs[:5], by_sig[gen_sigs[0]][0][1]["msg"][:200]))
            for sg in list(by_sig):
                by_sig[sg] = [(i, v) for i, v in by_sig[sg] if i not in invalid_runs]
                if not by_sig[sg]:
                    del by_sig[sg]
        stats["skipped_invalid_scenarios"] = len(invalid_runs)
        exit_code = 0
        known_hit = {}
        new_sigs = []
        for sig in sorted(by_sig):
            e = match_known(known, sig)
            if e is not None:
                known_hit.setdefault(e.get("signature"), (e, 0))
                known_hit[e.get("signature")] = (e, known_hit[e.get("signature")][1] + len(by_sig[sig]))
            else:
                new_sigs.append(sig)
        for ksig in sorted(known_hit):
            e, n = known_hit[ksig]
            log("KNOWN-FINDING: property=%s %s [signature %s, %d occurrences]" % (mod.ID, e.get("what", ""), ksig, n))
        reported = []
        shrink_deadline = time.time() + budget.get("shrink_seconds", 120 if tier == "quick" else 900)
        for sig in new_sigs[: budget.get("max_reports", 6)]:
            i, v = by_sig[sig][0]
            log("violation signature %s (first at run %d, %d occurrences): %s" % (sig, i, len(by_sig[sig]), v["msg"][:400]))
            model = recs[i].get("model")
            if model is None:
                model = mod.generate(Rng(derive(seed, mod.ID, i)), tier, i)
            # confirm it reproduces before anything else
            sigs, _, res0 = violation_sigs(mod, model, wd)
            if sig not in sigs and (recs[i].get("limited") or any(r is not None and r.status == ("signal", 24) for r in res0)):
                # a runaway process near the CPU-time limit: report the run as it is, unshrunk
                path = write_replay(mod, model, sig, v["msg"], seed, i, wd)
                log("VIOLATION property=%s replay=%s" % (mod.ID, path))
                reported.append(sig)
                exit_code = 1
                continue
            if sig not in sigs:
                raise build.HarnessError("violation %s of run %d did not reproduce" % (sig, i))
            small = shrink(mod, model, sig, wd, max_runs=budget.get("shrink_runs", 400), log=log, deadline=shrink_deadline)
            path = write_replay(mod, small, sig, v["msg"], seed, i, wd)
            sigs, _, _ = violation_sigs(mod, small, wd)
            if sig not in sigs:
                raise build.HarnessError("minimised replay %s did not reproduce" % path)
            log("VIOLATION property=%s replay=%s" % (mod.ID, path))
            reported.append(sig)
            exit_code = 1
        if len(new_sigs) > len(reported):
            log("(%d further distinct violation signatures not minimised: %s)" % (
                len(new_sigs) - len(reported), ", ".join(new_sigs[len(reported):][:10])))

        wall = time.time() - t0
        samples = [recs[i]["sample"] for i in sample_idx if i in recs and "sample" in recs[i]]
        zero_probes = sorted(k for k in getattr(mod, "PROBES", []) if stats.get(k, 0) == 0)
        cov = {
            "evaluations": done,
            "distinct_nontrivial": len(nontriv),
            "distinct_histories": len(hists),
            "rule": mod.RULE,
            "samples": samples,
            "operations": ops,
            "processes": procs,
            "runs_per_hour": int(done / wall * 3600) if wall > 0 else 0,
            "seeds_per_hour": int(done / wall * 3600) if wall > 0 else 0,
            "planned_runs": nruns,
            "stopped_early_by_time_cap": bool(done < nruns),
            "counters": {k: stats[k] for k in sorted(stats)},
            "probes_at_zero": zero_probes,
            "determinism_rechecked_runs": rechecked,
            "virtual_seconds_slept": slept,
            "simulated_time_note": "p2sh has no timers or deadlines; the virtual clock only removes real sleeps and delimits operations",
            "components": COMPONENTS if not hasattr(mod, "COMPONENTS") else mod.COMPONENTS,
            "bounds": mod.BOUNDS,
            "violation_signatures": sorted(new_sigs),
            "known_findings_hit": sorted(known_hit),
        }
        ev = {
            "property_id": mod.ID,
            "tier": tier,
            "seed": seed,
            "level": mod.LEVEL,
            "coverage": cov,
            "assumptions": mod.ASSUMPTIONS,
            "wall_s": round(wall, 2),
            "violations": len(new_sigs),
        }
        if write_evidence:
            os.makedirs(EVIDENCE_DIR, exist_ok=True)
            tmp = os.path.join(EVIDENCE_DIR, ".%s.json.tmp" % mod.ID)
            with open(tmp, "w") as f:
                json.dump(ev, f, indent=1, default=lambda o: repr(o))
            os.replace(tmp, os.path.join(EVIDENCE_DIR, "%s.json" % mod.ID))
        log("%s %s: %d runs, %d ops, %d distinct histories (%d non-trivial), %d violation signature(s), %d known, %.1fs (%.0f runs/s)" % (
            mod.ID, tier, done, ops, len(hists), len(nontriv), len(new_sigs), len(known_hit), wall, done / wall))
        if zero_probes:
            log("probes at zero: %s" % ", ".join(zero_probes))
        return exit_code
    finally:
        shutil.rmtree(base, ignore_errors=True)
