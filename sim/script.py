"""Helpers for generated p2sh scripts and for parsing their observation lines.

Observation protocol: after operation k the script prints, on stderr (never a faulted
descriptor, unbuffered, survives a kill), one or more ASCII lines `#k <TAG> ...`.
  E <msg>            error object
  A <len> <array>    byte array
  S <len> <array>    string (as encode_utf8 bytes; len = byte length)
  V <text>           any other value printed with {}
"""
from .content import parse_byte_array


def obs_bytes(k, var="r"):
    return ('if is_error(%s) { eprintln("#%d E {}", %s); } else { eprintln("#%d A {} {}", len(%s), %s); }'
            % (var, k, var, k, var, var))


def obs_str(k, var="r"):
    return ('if is_error(%s) { eprintln("#%d E {}", %s); } else { eprintln("#%d S {} {}", len(%s), encode_utf8(%s)); }'
            % (var, k, var, k, var, var))


def obs_val(k, var="r"):
    return ('if is_error(%s) { eprintln("#%d E {}", %s); } else { eprintln("#%d V {}", %s); }'
            % (var, k, var, k, var))


def obs_handle(k, var):
    return ('if is_error(%s) { eprintln("#%d E {}", %s); } else { eprintln("#%d V {}", %s); }'
            % (var, k, var, k, var))


def parse_obs(stderr_bytes):
    """-> (obs: {k: [(tag, rest)]}, other_lines: [str])"""
    obs = {}
    other = []
    text = stderr_bytes.decode("utf-8", "replace")
    for line in text.split("\n"):
        if not line:
            continue
        if line.startswith("#"):
            sp = line.find(" ")
            try:
                k = int(line[1:sp])
            except ValueError:
                other.append(line)
                continue
            rest = line[sp + 1:]
            tag = rest[:1]
            obs.setdefault(k, []).append((tag, rest[2:]))
        else:
            other.append(line)
    return obs, other


def decode_data(tag, rest):
    """For A/S observations: -> (declared_len, bytes)"""
    sp = rest.find(" ")
    n = int(rest[:sp])
    return n, parse_byte_array(rest[sp + 1:])


def str_literal_ok(s):
    return '"' not in s and "\0" not in s


def byte_array_expr(data):
    return "[" + ", ".join("byte(%d)" % b for b in data) + "]"


def panic_or_crash(stderr_bytes):
    return (b"panicked at" in stderr_bytes) or (b"RUST_BACKTRACE" in stderr_bytes) or (b"stack overflow" in stderr_bytes)
