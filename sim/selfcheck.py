"""Self-checks of the simulator itself (DESIGN section 2.7).

determinism: for every claimed property, N seeds are executed in two fresh interpreters with
different PYTHONHASHSEED values and different worker counts; everything observable about every
run (exit status, stdout, stderr, recorded history, files left behind, verdicts) is hashed and
the two listings must be identical.  A difference is a harness error (exit 2).
"""
import hashlib
import importlib
import multiprocessing
import os
import shutil
import subprocess
import sys

from . import build, engine

PROPS = ["C19", "C20", "C21", "C22", "C23"]


def listing(pid, n, seed, workers, out=sys.stdout):
    mod = importlib.import_module("props.%s" % pid.lower())
    build.ensure_build()
    base = engine.base_tmp()
    counter = multiprocessing.Value("i", 0)
    try:
        ctx = multiprocessing.get_context("fork")
        pool = ctx.Pool(workers, initializer=engine._worker_init, initargs=(mod.__name__, base, counter))
        try:
            recs = pool.map(engine._worker_run, [(seed, "quick", i, False) for i in range(n)], chunksize=3)
        finally:
            pool.terminate()
            pool.join()
    finally:
        shutil.rmtree(base, ignore_errors=True)
    for r in sorted(recs, key=lambda r: r["idx"]):
        if "harness_error" in r:
            out.write("%s %d HARNESS %s\n" % (pid, r["idx"], r["harness_error"].splitlines()[0]))
            continue
        h = hashlib.sha256(r["hist"].encode()).hexdigest()[:16]
        sigs = ",".join(sorted(v["sig"] for v in r["violations"]))
        out.write("%s %d %s %s %s %d\n" % (pid, r["idx"], r["fp"][:32], h, sigs or "-", r["ops"]))
    out.flush()


def main(what, runs, seed):
    if what == "listing":
        # internal: check selfcheck listing --runs N  (property list from env)
        for pid in os.environ.get("P2SIM_PROPS", ",".join(PROPS)).split(","):
            listing(pid, runs or 100, seed, int(os.environ.get("P2SIM_WORKERS", "8")))
        return 0
    if what == "sensitivity":
        # every reversed fix and every seeded change must be reported by its property's check
        return subprocess.call([sys.executable, os.path.join(build.VERIF, "tools", "sensitivity.py")])
    if what != "determinism":
        print("unknown selfcheck %r" % what, file=sys.stderr)
        return 2
    n = runs or 500
    build.ensure_build()
    check = os.path.join(build.VERIF, "check")
    outs = []
    for hashseed, workers in (("0", "8"), ("12345", "3")):
        env = dict(os.environ, PYTHONHASHSEED=hashseed, P2SIM_WORKERS=workers)
        p = subprocess.run([sys.executable, check, "selfcheck", "listing", "--runs", str(n), "--seed", str(seed)],
                           env=env, stdout=subprocess.PIPE, stderr=subprocess.PIPE, text=True)
        if p.returncode != 0:
            print("HARNESS-ERROR: listing failed: %s" % p.stderr[-2000:], file=sys.stderr)
            return 2
        outs.append(p.stdout.splitlines())
    a, b = outs
    bad = [(x, y) for x, y in zip(a, b) if x != y]
    if len(a) != len(b) or bad:
        print("HARNESS-ERROR: nondeterminism: %d of %d runs differ between two executions of the same seeds" % (len(bad) + abs(len(a) - len(b)), len(a)), file=sys.stderr)
        for x, y in bad[:10]:
            print("  %s\n  %s" % (x, y), file=sys.stderr)
        return 2
    harness = [x for x in a if " HARNESS " in x]
    if harness:
        print("HARNESS-ERROR: %s" % harness[0], file=sys.stderr)
        return 2
    per = {}
    for x in a:
        per[x.split(" ")[0]] = per.get(x.split(" ")[0], 0) + 1
    print("determinism: %d runs per property (%s) executed twice (PYTHONHASHSEED 0 / 12345, 8 / 3 workers): all %d executions identical" % (
        n, ", ".join("%s=%d" % kv for kv in sorted(per.items())), len(a)))
    return 0
