"""Build the system under test (release binary from /repo's working tree) and the shim."""
import fcntl
import os
import subprocess
import sys

VERIF = os.path.dirname(os.path.dirname(os.path.abspath(__file__)))
REPO = os.environ.get("P2SH_REPO", "/repo")
BUILD = os.environ.get("P2SIM_BUILD", os.path.join(VERIF, ".build"))
TARGET = os.path.join(BUILD, "target")
BIN = os.path.join(TARGET, "release", "p2sh")
SHIM = os.path.join(BUILD, "simos.so")
SHIM_SRC = os.path.join(VERIF, "sim", "simos.c")


class HarnessError(Exception):
    pass


def ensure_build(verbose=True):
    """(Re)build p2sh from REPO's current working tree and the shim. Serialised by a lock."""
    os.makedirs(BUILD, exist_ok=True)
    lock = open(os.path.join(BUILD, ".lock"), "w")
    fcntl.flock(lock, fcntl.LOCK_EX)
    try:
        env = dict(os.environ)
        env["CARGO_NET_OFFLINE"] = "true"
        env["CARGO_TARGET_DIR"] = TARGET
        env.pop("RUSTFLAGS", None)
        p = subprocess.run(
            ["cargo", "build", "--release", "--offline", "--quiet"],
            cwd=REPO, env=env, stdout=subprocess.PIPE, stderr=subprocess.STDOUT, text=True)
        if p.returncode != 0 or not os.path.exists(BIN):
            raise HarnessError("cargo build failed:\n" + p.stdout[-4000:])
        need = (not os.path.exists(SHIM)
                or os.path.getmtime(SHIM) < os.path.getmtime(SHIM_SRC))
        if need:
            tmp = SHIM + ".tmp.%d" % os.getpid()
            p = subprocess.run(
                ["gcc", "-O2", "-shared", "-fPIC", "-o", tmp, SHIM_SRC],
                stdout=subprocess.PIPE, stderr=subprocess.STDOUT, text=True)
            if p.returncode != 0:
                raise HarnessError("gcc failed for simos.c:\n" + p.stdout[-4000:])
            os.replace(tmp, SHIM)
    finally:
        fcntl.flock(lock, fcntl.LOCK_UN)
        lock.close()
    return BIN, SHIM


if __name__ == "__main__":
    try:
        b, s = ensure_build()
        print("built", b, s)
    except HarnessError as e:
        print("HARNESS-ERROR:", e, file=sys.stderr)
        sys.exit(2)
