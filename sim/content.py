"""Content specifications: small JSON-able descriptions that expand to bytes deterministically,
so that models stay small, replayable and shrinkable."""
from .prng import Rng

TEXT_ALPHABET = "abcdefghijklmnopqrstuvwxyz ABCDEFGHIJKLMNOPQRSTUVWXYZ0123456789,.;:-_()[]{}<>!?*+=/'#@$%^&|~`"
MULTI = ["é", "ß", "λ", "я", "€", "あ", "漢", "😀", "𝄞", "\ufeff"]   # (U+FEFF is ordinary content wherever it stands)


_TABLE = bytes(TEXT_ALPHABET[i % len(TEXT_ALPHABET)].encode()[0] for i in range(256))
_MULTI_B = [m.encode() for m in MULTI]
_CACHE = {}


def expand(spec):
    """spec -> bytes (memoised: generation, rendering and the oracle all expand the same specs)"""
    key = tuple(sorted(spec.items()))
    v = _CACHE.get(key)
    if v is None:
        if len(_CACHE) > 64:
            _CACHE.clear()
        v = _expand(spec)
        _CACHE[key] = v
    return v


def _expand(spec):
    t = spec["t"]
    n = spec.get("n", 0)
    if t == "lit":
        return bytes.fromhex(spec["hex"])
    if t == "zero":
        return b"\0" * n
    if t == "bin":
        return Rng(spec["seed"]).bytes(n)
    if t == "binnl":  # binary with a few newlines sprinkled in
        r = Rng(spec["seed"])
        b = bytearray(r.bytes(n))
        for _ in range(max(1, n // 97)):
            if n:
                b[r.below(n)] = 10
        return bytes(b)
    if t == "text":  # valid UTF-8 text with lines; exactly n bytes
        r = Rng(spec["seed"])
        linemax = spec.get("linemax", 120)
        multi = spec.get("multi", 10)  # roughly the percentage of multi-byte characters
        out = bytearray(r.bytes(n).translate(_TABLE))
        if multi > 0 and n >= 4:
            gap = max(1, 200 // multi)
            p = r.range(0, gap)
            while p + 4 <= n:
                ch = r.choice(_MULTI_B)
                out[p:p + len(ch)] = ch
                p += len(ch) + r.range(0, gap)
        # line breaks: only on single-byte positions
        p = r.range(0, linemax)
        while p < n:
            if out[p] < 0x80:
                out[p] = 10
            p += 1 + r.range(0, linemax)
        if spec.get("final_nl") and n > 0 and out[n - 1] < 0x80:
            out[n - 1] = 10
        if spec.get("bom") and n >= 8:
            # the text starts with U+FEFF (a byte-order mark is content like any other character);
            # a complete ASCII filler follows so that no multi-byte sequence is cut
            out[0:3] = b"\xef\xbb\xbf"
            out[3:8] = b"bom: "
            j = 8
            while j < n and (out[j] & 0xC0) == 0x80:   # orphaned continuation bytes of an overwritten character
                out[j] = 0x78
                j += 1
        return bytes(out)
    if t == "eth":  # Ethernet frame with an ethertype p2sh does not parse further; rest random
        b = bytearray(Rng(spec["seed"]).bytes(max(n, 14)))
        b[12] = (spec["etype"] >> 8) & 0xFF
        b[13] = spec["etype"] & 0xFF
        return bytes(b[:max(n, 14)])
    if t == "pattern":  # (i*mul+add)%256
        mul, add = spec.get("mul", 7), spec.get("add", 3)
        period = bytes(((i * mul + add) % 256) for i in range(256))
        return (period * (n // 256 + 1))[:n]
    raise ValueError("unknown content spec %r" % (spec,))


def shrink_spec(spec):
    """Yield smaller specs."""
    t = spec["t"]
    if t == "lit":
        b = bytes.fromhex(spec["hex"])
        if len(b) > 0:
            yield {"t": "lit", "hex": b[: len(b) // 2].hex()}
            yield {"t": "lit", "hex": b[:-1].hex()}
        return
    n = spec.get("n", 0)
    lo = 14 if t == "eth" else 0
    for m in (lo, n // 2, n - 1024, n - 64, n - 1):
        if lo <= m < n:
            s = dict(spec)
            s["n"] = m
            yield s
    if t in ("bin", "binnl", "text"):
        s = {"t": "pattern", "n": n}
        yield s
    if t == "eth":
        return
    if t == "pattern" and n > 0:
        yield {"t": "zero", "n": n}


def size_class(rng, big_ok=True):
    """Sizes that matter for the code under test: std's 8192-byte BufReader/BufWriter and the
    4096-byte scratch buffer in read_from_file."""
    pick = rng.weighted([
        (6, "empty"), (8, "tiny"), (10, "small"), (14, "4096"), (18, "8192"), (10, "16384"),
        (10, "multi"), (3 if big_ok else 0, "huge"), (8, "12288"),
    ])
    if pick == "empty":
        return 0
    if pick == "tiny":
        return rng.range(1, 8)
    if pick == "small":
        return rng.range(9, 600)
    if pick == "4096":
        return 4096 + rng.range(-17, 17)
    if pick == "8192":
        return 8192 + rng.range(-17, 17)
    if pick == "12288":
        return 12288 + rng.range(-17, 17)
    if pick == "16384":
        return 16384 + rng.range(-17, 17)
    if pick == "multi":
        return rng.range(8193, 3 * 8192 + 100)
    return rng.range(30000, 70000)


def chunk_plan(rng, total_hint=65536):
    """A schedule of transfer sizes for successive read(2) calls on pipe-like descriptors.
    Returns [cycle, [sizes]]."""
    mode = rng.weighted([(10, "one"), (14, "tiny"), (18, "mixed"), (12, "buf"), (10, "few"), (8, "fixed"), (6, "full")])
    if mode == "full":
        return [0, []]
    if mode == "one":
        return [1, [1]]
    if mode == "fixed":
        return [1, [rng.choice([2, 3, 5, 7, 13, 16, 100, 512, 1000, 4095, 4096, 4097, 8191, 8193])]]
    n = rng.range(1, 40)
    sizes = []
    for _ in range(n):
        if mode == "tiny":
            sizes.append(rng.range(1, 9))
        elif mode == "buf":
            sizes.append(rng.choice([4095, 4096, 4097, 8191, 8192, 8193, 1, 2, 24, 16, 12288]))
        elif mode == "few":
            sizes.append(rng.choice([1, 1, 2, 3, 15, 16, 17, 23, 24, 25, 40, 1 << 20]))
        else:
            sizes.append(rng.weighted([(3, 1), (3, rng.range(2, 30)), (3, rng.range(31, 5000)), (2, rng.range(4000, 9000)), (1, 1 << 20)]))
    cycle = 1 if rng.chance(60) else 0
    return [cycle, sizes]


def parse_byte_array(s):
    """'[0x1, 0xff]' -> bytes; raises ValueError on malformed text."""
    s = s.strip()
    if not (s.startswith("[") and s.endswith("]")):
        raise ValueError("not an array: %r" % s[:40])
    inner = s[1:-1].strip()
    if not inner:
        return b""
    return bytes(int(x, 16) for x in inner.split(", "))
