"""Drive the real, unmodified p2sh REPL through a kernel pseudo-terminal.

Strict request/response: a line is written only after the prompt for it has been rendered
completely, and the reply is read until the *next* prompt has been rendered, so the exchange
does not depend on timing (the wall-clock timeout is a safety net that reports a harness
error, never a verdict).
"""
import fcntl
import os
import pty
import re
import select
import signal
import struct
import termios
import time

from . import build
from .runner import Result, plan_text

PROMPT_RE = re.compile(rb"\x1b\[33m\?\x1b\[0m \x1b\[1m(>>|>)\x1b\[0m \x1b\[38;5;8m\xe2\x80\xba\x1b\[0m $")
CONFIRM_RE = re.compile(rb"\x1b\[32m\xe2\x9c\x94\x1b\[0m \x1b\[1m(>>|>)\x1b\[0m \x1b\[38;5;8m\xc2\xb7\x1b\[0m \x1b\[32m(.*?)\x1b\[0m\r\n", re.S)
ANSI_RE = re.compile(rb"\x1b\[[0-9;?]*[A-Za-z]")
TIMEOUT = 10.0


class ReplError(Exception):
    pass


def _read_until_prompt(fd, buf, deadline):
    while True:
        if PROMPT_RE.search(buf):
            return buf, True
        left = deadline - time.time()
        if left <= 0:
            return buf, False
        r, _, _ = select.select([fd], [], [], min(left, 1.0))
        if not r:
            continue
        try:
            d = os.read(fd, 65536)
        except OSError:
            return buf, False
        if not d:
            return buf, False
        buf += d


def run_session(workdir, lines, rseed, cols=1000):
    """lines: list of physical lines to type (continuation lines end with a backslash).
    Returns (Result, segments) where segments[i] = text printed after physical line i was
    confirmed and before the next prompt ('' for a continuation line), already stripped of ANSI
    sequences and with \r\n normalised to \n.
    """
    with open(os.path.join(workdir, "plan"), "w") as f:
        f.write(plan_text({"rseed": rseed}))
    try:
        os.unlink(os.path.join(workdir, "trace"))
    except OSError:
        pass
    env = {
        "LD_PRELOAD": build.SHIM, "SIMOS_PLAN": "plan", "SIMOS_TRACE": "trace",
        "PATH": "/usr/bin:/bin", "HOME": "/nonexistent", "TERM": "xterm", "CLICOLOR_FORCE": "1",
    }
    pid, fd = pty.fork()
    if pid == 0:
        try:
            os.chdir(workdir)
            import resource
            resource.setrlimit(resource.RLIMIT_CPU, (10, 11))
            resource.setrlimit(resource.RLIMIT_CORE, (0, 0))
            os.execve(build.BIN, [build.BIN], env)
        except BaseException:
            pass
        os._exit(127)
    res = Result()
    segments = []
    transcript = []
    try:
        fcntl.ioctl(fd, termios.TIOCSWINSZ, struct.pack("HHHH", 50, cols, 0, 0))
        deadline = time.time() + TIMEOUT
        buf, ok = _read_until_prompt(fd, b"", deadline)
        if not ok:
            raise ReplError("no initial prompt: %r" % buf[-200:])
        banner = buf
        for line in lines:
            data = line.encode("utf-8") + b"\r"
            os.write(fd, data)
            deadline = time.time() + TIMEOUT
            buf, ok = _read_until_prompt(fd, b"", deadline)
            if not ok:
                # the process may have died (panic) -- collect what there is
                transcript.append(buf)
                m = CONFIRM_RE.search(buf)
                seg = buf[m.end():] if m else buf
                segments.append(_clean(seg))
                raise ReplError("no prompt after line %r: %r" % (line, buf[-300:]))
            transcript.append(buf)
            m = CONFIRM_RE.search(buf)
            if not m:
                raise ReplError("no confirmation for line %r: %r" % (line, buf[:300]))
            pm = PROMPT_RE.search(buf)
            segments.append(_clean(buf[m.end():pm.start()]))
        os.write(fd, b"quit\r")
        tail = b""
        deadline = time.time() + TIMEOUT
        while time.time() < deadline:
            r, _, _ = select.select([fd], [], [], 0.5)
            if r:
                try:
                    d = os.read(fd, 65536)
                except OSError:
                    break
                if not d:
                    break
                tail += d
            else:
                p, st = os.waitpid(pid, os.WNOHANG)
                if p:
                    res.status = ("signal", os.WTERMSIG(st)) if os.WIFSIGNALED(st) else ("exit", os.WEXITSTATUS(st))
                    pid = 0
                    break
        transcript.append(tail)
    except ReplError as e:
        res.repl_error = str(e)
    finally:
        if pid:
            try:
                p, st = os.waitpid(pid, os.WNOHANG)
                if not p and not getattr(res, "repl_error", None):
                    # the terminal is closed but the exit has not been reaped yet: wait for it
                    # (bounded; exiting takes microseconds, the bound is only a safety net)
                    t_end = time.time() + TIMEOUT
                    while not p and time.time() < t_end:
                        time.sleep(0.002)
                        p, st = os.waitpid(pid, os.WNOHANG)
                if not p:
                    os.kill(pid, signal.SIGKILL)
                    p, st = os.waitpid(pid, 0)
                    res.status = res.status or ("killed-by-driver", 9)
                else:
                    res.status = ("signal", os.WTERMSIG(st)) if os.WIFSIGNALED(st) else ("exit", os.WEXITSTATUS(st))
            except OSError:
                pass
        try:
            os.close(fd)
        except OSError:
            pass
    if res.status is None:
        res.status = ("unknown", 0)
    res.stdout = "\x00".join(segments).encode("utf-8", "replace")
    res.stderr = b""
    res.trace = ""
    return res, segments


def _clean(b):
    b = ANSI_RE.sub(b"", b)
    return b.replace(b"\r\n", b"\n").replace(b"\r", b"").decode("utf-8", "replace")
