"""Run one simulated execution: the real p2sh binary under the simos shim."""
import os
import resource
import shutil
import signal

from . import build

CPU_LIMIT = 60  # seconds of CPU per simulated process (CPU time: independent of load)


def plan_text(plan):
    """Serialise a plan dict to the shim's text format.

    plan = {root: 'd/', paths: [[id, 'r'|'p', relpath]], stdin: 'r'|'p'|None, stdout: bool,
            chunks: [cycle, [c...]], faults: [[op, call, target, nth, action, arg]], rseed: int}
    """
    out = []
    if plan.get("root"):
        out.append("root %s" % plan["root"])
    for pid, kind, path in plan.get("paths", []):
        out.append("path %d %s %s" % (pid, kind, path))
    if plan.get("stdin"):
        out.append("stdin %s" % plan["stdin"])
    if plan.get("stdout"):
        out.append("stdout 1")
    ch = plan.get("chunks")
    if ch and ch[1]:
        out.append("chunks %d %d %s" % (1 if ch[0] else 0, len(ch[1]), " ".join(str(int(c)) for c in ch[1])))
    for f in plan.get("faults", []):
        out.append("fault %d %s %d %d %d %d" % tuple(f))
    out.append("rseed %d" % (plan.get("rseed", 1) & ((1 << 64) - 1)))
    return "\n".join(out) + "\n"


class Event(object):
    __slots__ = ("seq", "op", "call", "fd", "target", "req", "res", "errno", "action", "off")

    def __init__(self, parts):
        self.seq = int(parts[1])
        self.op = int(parts[2])
        self.call = parts[3]
        self.fd = int(parts[4])
        self.target = int(parts[5])
        self.req = int(parts[6])
        self.res = int(parts[7])
        self.errno = int(parts[8])
        self.action = int(parts[9])
        self.off = int(parts[10])

    def tup(self):
        return (self.seq, self.op, self.call, self.fd, self.target, self.req, self.res, self.errno,
                self.action, self.off)


def parse_trace(text):
    """Return (events, clocks, slept_seconds)."""
    events = []
    clocks = 0
    slept = 0
    for line in text.splitlines():
        if not line:
            continue
        c = line[0]
        if c == "E":
            parts = line.split(" ")
            if len(parts) == 11:
                events.append(Event(parts))
        elif c == "C":
            clocks += 1
        elif c == "S":
            try:
                slept += int(line[2:])
            except ValueError:
                pass
    return events, clocks, slept


class Result(object):
    def __init__(self):
        self.status = None  # ('exit', n) or ('signal', n)
        self.stdout = b""
        self.stderr = b""
        self.trace = ""
        self.files = {}
        self.events = []
        self.clocks = 0
        self.slept = 0

    def fingerprint(self):
        """Everything observable about the run, for determinism comparison."""
        return (self.status, self.stdout, self.stderr, self.trace,
                tuple(sorted(self.files.items())))


def _clean(workdir):
    for name in os.listdir(workdir):
        p = os.path.join(workdir, name)
        if os.path.isdir(p) and not os.path.islink(p):
            shutil.rmtree(p, ignore_errors=True)
        else:
            try:
                os.unlink(p)
            except OSError:
                pass


def _collect_files(workdir, root):
    out = {}
    base = os.path.join(workdir, root)
    if not os.path.isdir(base):
        return out
    for dp, dns, fns in os.walk(base):
        for fn in fns:
            p = os.path.join(dp, fn)
            rel = os.path.relpath(p, workdir)
            try:
                if os.path.isfile(p) and not os.path.islink(p):
                    with open(p, "rb") as f:
                        out[rel] = f.read()
            except OSError:
                pass
    return out


def run_concrete(workdir, conc, clean=True):
    """Execute one concrete scenario in workdir (must be the process cwd-independent).

    conc = {argv: [...], script: str|None, files: {rel: bytes}, dirs: [rel], stdin: bytes|None,
            plan: dict, env: {..}}
    The SUT runs with cwd = workdir so that scripts use relative paths only (outputs are then
    byte-identical whatever directory the run happens to use).
    """
    if clean:
        _clean(workdir)
    for d in conc.get("dirs", []):
        os.makedirs(os.path.join(workdir, d), exist_ok=True)
    for rel, data in conc.get("files", {}).items():
        p = os.path.join(workdir, rel)
        os.makedirs(os.path.dirname(p), exist_ok=True)
        with open(p, "wb") as f:
            f.write(data)
    for rel, target in conc.get("symlinks", {}).items():
        p = os.path.join(workdir, rel)
        os.makedirs(os.path.dirname(p), exist_ok=True)
        os.symlink(target, p)
    if conc.get("script") is not None:
        with open(os.path.join(workdir, "s.p2"), "w", encoding="utf-8", newline="") as f:
            f.write(conc["script"])
    with open(os.path.join(workdir, "stdin"), "wb") as f:
        f.write(conc.get("stdin") or b"")
    with open(os.path.join(workdir, "plan"), "w") as f:
        f.write(plan_text(conc.get("plan", {})))
    for name in ("trace", "stdout", "stderr"):
        try:
            os.unlink(os.path.join(workdir, name))
        except OSError:
            pass
    env = {
        "LD_PRELOAD": build.SHIM,
        "SIMOS_PLAN": "plan",
        "SIMOS_TRACE": "trace",
        "PATH": "/usr/bin:/bin",
        "HOME": "/nonexistent",
        "NO_COLOR": "1",
        "TERM": "dumb",
    }
    env.update(conc.get("env", {}))
    argv = [build.BIN] + list(conc.get("argv", []))
    # posix_spawn (vfork semantics: no copy of this process's page tables).  It has no
    # chdir action, so the calling worker process changes its own directory: every worker is
    # a separate single-threaded process, so that is safe.
    os.chdir(workdir)
    fa = [
        (os.POSIX_SPAWN_OPEN, 0, "stdin", os.O_RDONLY, 0),
        (os.POSIX_SPAWN_OPEN, 1, "stdout", os.O_WRONLY | os.O_CREAT | os.O_TRUNC | os.O_APPEND, 0o644),
        (os.POSIX_SPAWN_OPEN, 2, "stderr", os.O_WRONLY | os.O_CREAT | os.O_TRUNC | os.O_APPEND, 0o644),
    ]
    if conc.get("merge_output"):
        # stdout and stderr appended to one file, in program order (as on a terminal)
        fa[2] = (os.POSIX_SPAWN_OPEN, 2, "stdout", os.O_WRONLY | os.O_CREAT | os.O_APPEND, 0o644)
    pid = os.posix_spawn(argv[0], argv, env, file_actions=fa)
    try:
        resource.prlimit(pid, resource.RLIMIT_CPU, (CPU_LIMIT, CPU_LIMIT + 1))
    except (OSError, ValueError):
        pass
    _, st = os.waitpid(pid, 0)
    res = Result()
    if os.WIFSIGNALED(st):
        res.status = ("signal", os.WTERMSIG(st))
    else:
        res.status = ("exit", os.WEXITSTATUS(st))
    for name in ("stdout", "stderr"):
        try:
            with open(os.path.join(workdir, name), "rb") as f:
                setattr(res, name, f.read())
        except OSError:
            pass
    try:
        with open(os.path.join(workdir, "trace"), "r") as f:
            res.trace = f.read()
    except OSError:
        res.trace = ""
    res.events, res.clocks, res.slept = parse_trace(res.trace)
    res.files = _collect_files(workdir, conc.get("plan", {}).get("root", "d/").rstrip("/"))
    return res


def status_ok(status, allowed_exit=(0,)):
    return status[0] == "exit" and status[1] in allowed_exit


def describe_status(status):
    if status[0] == "signal":
        try:
            return "killed by %s" % signal.Signals(status[1]).name
        except ValueError:
            return "killed by signal %d" % status[1]
    return "exit %d" % status[1]
