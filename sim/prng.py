"""SplitMix64: the only source of randomness of the simulator.

Independent of Python's `random`, of PYTHONHASHSEED and of the platform, so that one
integer decides a whole simulated run.
"""

MASK = (1 << 64) - 1


def mix(z):
    z &= MASK
    z = ((z ^ (z >> 30)) * 0xBF58476D1CE4E5B9) & MASK
    z = ((z ^ (z >> 27)) * 0x94D049BB133111EB) & MASK
    return z ^ (z >> 31)


def derive(seed, *parts):
    """Derive a sub-seed from a seed and a tuple of ints / strings (stable across runs)."""
    h = mix(seed + 0x9E3779B97F4A7C15)
    for p in parts:
        if isinstance(p, str):
            v = 0
            for ch in p.encode():
                v = (v * 131 + ch) & MASK
        else:
            v = int(p) & MASK
        h = mix(h ^ mix(v + 0x9E3779B97F4A7C15))
    return h


class Rng:
    def __init__(self, seed):
        self.s = seed & MASK

    def u64(self):
        self.s = (self.s + 0x9E3779B97F4A7C15) & MASK
        return mix(self.s)

    def below(self, n):
        """uniform integer in [0, n)"""
        if n <= 1:
            return 0
        return self.u64() % n

    def range(self, lo, hi):
        """uniform integer in [lo, hi] inclusive"""
        if hi <= lo:
            return lo
        return lo + self.below(hi - lo + 1)

    def chance(self, num, den=100):
        return self.below(den) < num

    def choice(self, seq):
        return seq[self.below(len(seq))]

    def weighted(self, pairs):
        """pairs: [(weight, value), ...]"""
        total = sum(w for w, _ in pairs)
        k = self.below(total)
        for w, v in pairs:
            if k < w:
                return v
            k -= w
        return pairs[-1][1]

    def bytes(self, n):
        out = bytearray()
        while len(out) < n:
            out += self.u64().to_bytes(8, "little")
        return bytes(out[:n])

    def shuffle(self, lst):
        for i in range(len(lst) - 1, 0, -1):
            j = self.below(i + 1)
            lst[i], lst[j] = lst[j], lst[i]
        return lst

    def fork(self, *parts):
        return Rng(derive(self.u64(), *parts))
