/*
 * simos -- a simulated operating-system personality for the p2sh binary.
 *
 * LD_PRELOAD shim that interposes the libc entry points through which the (statically
 * linked) Rust std of p2sh reaches the kernel.  It owns every source of nondeterminism
 * the claimed properties depend on:
 *
 *   read(2) transfer sizes on pipe-like descriptors, errno results of read/write/open,
 *   short writes, process death at a chosen call, getrandom (HashMap keys, rand),
 *   the realtime clock and sleeping.
 *
 * It draws nothing itself: every decision comes from the plan file named by SIMOS_PLAN,
 * which the driver derives from one seed.  It reads no clock and uses only raw system
 * calls internally, so logging can not perturb the run.  Every watched call is appended
 * to the trace (SIMOS_TRACE) as one text line, written immediately with a raw write so
 * that it survives an injected SIGKILL.
 *
 * Plan file (text, one directive per line):
 *   root <prefix>                 paths with this prefix are watched (generic target 99)
 *   path <id> <r|p> <path>        exact path with target id; p = pipe-like (chunked reads)
 *   stdin <r|p>                   fd 0 watched, regular or pipe-like   (target -2)
 *   stdout 1                      fd 1 watched                          (target -3)
 *   chunks <cycle> <n> c1 .. cn   transfer sizes for successive pipe-like read calls
 *   fault <op> <R|W|O|C> <target> <nth> <action> <arg>
 *                                 op = -1: any operation, else the operation index
 *                                 (number of CLOCK_REALTIME reads so far); target = -1 any;
 *                                 fires once at the nth matching call
 *   rseed <u64>                   key for getrandom
 *
 * Actions: 1 EIO  2 ENOSPC  3 EPIPE(sticky)  4 EACCES  5 EMFILE  6 EINTR
 *          7 SHORT(arg bytes, next write on that fd fails ENOSPC)  8 KILL
 *          9 PLAINSHORT(arg bytes)  10 EISDIR 11 ENOENT 12 EAGAIN
 *          20 fail with errno = arg (any errno a deployment can meet: EINVAL, ENOMEM, ESTALE, EFBIG, EDQUOT, ...)
 *          21 (reads) fail with errno = arg now and on every later read of that descriptor (a device that
 *             stays broken, a non-blocking pipe that stays empty)
 *
 * Pipe-like descriptors also *look* like pipes: fstat/statx report a FIFO of size 0 and lseek
 * fails with ESPIPE, as for a real pipe or FIFO.
 */
#define _GNU_SOURCE
#include <errno.h>
#include <fcntl.h>
#include <signal.h>
#include <stdarg.h>
#include <stdint.h>
#include <stddef.h>
#include <string.h>
#include <sys/syscall.h>
#include <sys/types.h>
#include <sys/uio.h>
#include <time.h>
#include <unistd.h>

#define MAXFD 1024
#define MAXPATHS 64
#define MAXFAULTS 64
#define MAXCHUNKS 65536
#define TRACE_FD 1000

static long raw6(long n, long a, long b, long c, long d, long e, long f) {
    long ret;
    register long r10 __asm__("r10") = d;
    register long r8 __asm__("r8") = e;
    register long r9 __asm__("r9") = f;
    __asm__ volatile("syscall"
                     : "=a"(ret)
                     : "a"(n), "D"(a), "S"(b), "d"(c), "r"(r10), "r"(r8), "r"(r9)
                     : "rcx", "r11", "memory");
    return ret;
}
#define RAW3(n, a, b, c) raw6((n), (long)(a), (long)(b), (long)(c), 0, 0, 0)

struct fdinfo {
    int watched;
    int target;
    int pipe;
    int sticky_epipe;
    int sticky_rerr;
    int pending_enospc;
    long off;
};
struct pathent {
    int id;
    int pipe;
    char path[256];
};
struct fault {
    int op;
    char call;
    int target;
    int nth;
    int action;
    long arg;
    int count;
    int fired;
};

static struct fdinfo fds[MAXFD];
static struct pathent paths[MAXPATHS];
static int npaths;
static struct fault faults[MAXFAULTS];
static int nfaults;
static char root[256];
static int rootlen;
static int chunks[MAXCHUNKS];
static int nchunks, chunk_cycle;
static long chunk_idx;
static uint64_t rseed = 0x9e3779b97f4a7c15ULL, rctr;
static long opidx;
static long seq;
static int active;
static int trace_fd = -1;
static long vclock_sec = 1700000000, vclock_nsec;
static long cur_arg; /* argument of the fault rule that just fired */

/* ---------- tiny helpers (no stdio, no malloc) ---------- */
static char *put_long(char *p, long v) {
    char tmp[24];
    int n = 0;
    unsigned long u;
    if (v < 0) {
        *p++ = '-';
        u = (unsigned long)(-(v + 1)) + 1;
    } else
        u = (unsigned long)v;
    do {
        tmp[n++] = '0' + (u % 10);
        u /= 10;
    } while (u);
    while (n) *p++ = tmp[--n];
    return p;
}

static void trace_event(char call, int fd, int target, long req, long res, int err, int action, long off) {
    if (trace_fd < 0) return;
    char buf[200], *p = buf;
    *p++ = 'E';
    *p++ = ' ';
    p = put_long(p, seq++);
    *p++ = ' ';
    p = put_long(p, opidx);
    *p++ = ' ';
    *p++ = call;
    *p++ = ' ';
    p = put_long(p, fd);
    *p++ = ' ';
    p = put_long(p, target);
    *p++ = ' ';
    p = put_long(p, req);
    *p++ = ' ';
    p = put_long(p, res);
    *p++ = ' ';
    p = put_long(p, err);
    *p++ = ' ';
    p = put_long(p, action);
    *p++ = ' ';
    p = put_long(p, off);
    *p++ = '\n';
    RAW3(SYS_write, trace_fd, buf, p - buf);
}

static long parse_long(const char **pp) {
    const char *p = *pp;
    while (*p == ' ') p++;
    int neg = 0;
    if (*p == '-') {
        neg = 1;
        p++;
    }
    long v = 0;
    while (*p >= '0' && *p <= '9') {
        v = v * 10 + (*p - '0');
        p++;
    }
    *pp = p;
    return neg ? -v : v;
}
static uint64_t parse_u64(const char **pp) {
    const char *p = *pp;
    while (*p == ' ') p++;
    uint64_t v = 0;
    while (*p >= '0' && *p <= '9') {
        v = v * 10 + (uint64_t)(*p - '0');
        p++;
    }
    *pp = p;
    return v;
}
static void copy_word(char *dst, int cap, const char **pp) {
    const char *p = *pp;
    while (*p == ' ') p++;
    int n = 0;
    while (*p && *p != '\n' && n < cap - 1) dst[n++] = *p++;
    dst[n] = 0;
    *pp = p;
}

static char planbuf[1 << 20];

__attribute__((constructor)) static void simos_init(void) {
    const char *plan = 0, *trace = 0;
    extern char **environ;
    for (char **e = environ; e && *e; e++) {
        if (!strncmp(*e, "SIMOS_PLAN=", 11)) plan = *e + 11;
        if (!strncmp(*e, "SIMOS_TRACE=", 12)) trace = *e + 12;
    }
    if (!plan) return;
    long fd = RAW3(SYS_open, plan, O_RDONLY, 0);
    if (fd < 0) return;
    long n = 0, r;
    while ((r = RAW3(SYS_read, fd, planbuf + n, sizeof(planbuf) - 1 - n)) > 0) n += r;
    RAW3(SYS_close, fd, 0, 0);
    planbuf[n] = 0;
    const char *p = planbuf;
    while (*p) {
        const char *line = p;
        const char *q = line;
        if (!strncmp(line, "root ", 5)) {
            q += 5;
            copy_word(root, sizeof(root), &q);
            rootlen = strlen(root);
        } else if (!strncmp(line, "path ", 5)) {
            q += 5;
            if (npaths < MAXPATHS) {
                paths[npaths].id = (int)parse_long(&q);
                while (*q == ' ') q++;
                paths[npaths].pipe = (*q == 'p');
                q++;
                copy_word(paths[npaths].path, sizeof(paths[npaths].path), &q);
                npaths++;
            }
        } else if (!strncmp(line, "stdin ", 6)) {
            q += 6;
            while (*q == ' ') q++;
            fds[0].watched = 1;
            fds[0].target = -2;
            fds[0].pipe = (*q == 'p');
        } else if (!strncmp(line, "stdout ", 7)) {
            fds[1].watched = 1;
            fds[1].target = -3;
        } else if (!strncmp(line, "chunks ", 7)) {
            q += 7;
            chunk_cycle = (int)parse_long(&q);
            long cnt = parse_long(&q);
            for (long i = 0; i < cnt && nchunks < MAXCHUNKS; i++) chunks[nchunks++] = (int)parse_long(&q);
        } else if (!strncmp(line, "fault ", 6)) {
            q += 6;
            if (nfaults < MAXFAULTS) {
                struct fault *f = &faults[nfaults++];
                f->op = (int)parse_long(&q);
                while (*q == ' ') q++;
                f->call = *q++;
                f->target = (int)parse_long(&q);
                f->nth = (int)parse_long(&q);
                f->action = (int)parse_long(&q);
                f->arg = parse_long(&q);
                f->count = 0;
                f->fired = 0;
            }
        } else if (!strncmp(line, "rseed ", 6)) {
            q += 6;
            rseed = parse_u64(&q);
        }
        while (*p && *p != '\n') p++;
        if (*p == '\n') p++;
    }
    if (trace) {
        long t = RAW3(SYS_open, trace, O_WRONLY | O_CREAT | O_APPEND, 0644);
        if (t >= 0) {
            long d = RAW3(SYS_dup2, t, TRACE_FD, 0);
            if (d >= 0) {
                trace_fd = TRACE_FD;
                RAW3(SYS_close, t, 0, 0);
                RAW3(SYS_fcntl, trace_fd, F_SETFD, FD_CLOEXEC);
            } else
                trace_fd = (int)t;
        }
    }
    active = 1;
}

/* Decide the fault (if any) for this call. Returns action, sets *arg. */
static int decide(char call, int target, long *arg) {
    int action = 0;
    for (int i = 0; i < nfaults; i++) {
        struct fault *f = &faults[i];
        if (f->fired) continue;
        if (f->call != call) continue;
        if (f->op != -1 && f->op != opidx) continue;
        if (f->target != -1 && f->target != target) continue;
        f->count++;
        if (f->count == f->nth && !action) {
            f->fired = 1;
            action = f->action;
            *arg = f->arg;
            cur_arg = f->arg;
        }
    }
    return action;
}

static void die_now(void) {
    long pid = RAW3(SYS_getpid, 0, 0, 0);
    RAW3(SYS_kill, pid, SIGKILL, 0);
    for (;;) RAW3(SYS_pause, 0, 0, 0);
}

/* A write to a pipe whose reader is gone makes the kernel send SIGPIPE to the writing thread
 * before write(2) returns EPIPE.  Rust's runtime ignores SIGPIPE, so normally nothing happens;
 * a program that restores the default action dies here, exactly as it would for real. */
static void raise_sigpipe(void) {
    long pid = RAW3(SYS_getpid, 0, 0, 0);
    long tid = RAW3(SYS_gettid, 0, 0, 0);
    RAW3(SYS_tgkill, pid, tid, SIGPIPE);
}

static int action_errno(int action) {
    if (action == 20) return (int)cur_arg;
    switch (action) {
    case 1: return EIO;
    case 2: return ENOSPC;
    case 3: return EPIPE;
    case 4: return EACCES;
    case 5: return EMFILE;
    case 6: return EINTR;
    case 10: return EISDIR;
    case 11: return ENOENT;
    case 12: return EAGAIN;
    default: return EIO;
    }
}

/* ---------- read ---------- */
ssize_t read(int fd, void *buf, size_t count) {
    if (!active || fd < 0 || fd >= MAXFD || !fds[fd].watched) {
        long r = RAW3(SYS_read, fd, buf, count);
        if (r < 0) {
            errno = (int)-r;
            return -1;
        }
        return r;
    }
    struct fdinfo *fi = &fds[fd];
    long arg = 0;
    long off = fi->off;
    if (fi->sticky_rerr) {
        trace_event('R', fd, fi->target, (long)count, -1, fi->sticky_rerr, 21, off);
        errno = fi->sticky_rerr;
        return -1;
    }
    int action = decide('R', fi->target, &arg);
    if (action == 21) {
        fi->sticky_rerr = (int)arg;
        trace_event('R', fd, fi->target, (long)count, -1, (int)arg, 21, off);
        errno = (int)arg;
        return -1;
    }
    if (action == 8) {
        trace_event('R', fd, fi->target, (long)count, -1, 0, action, off);
        die_now();
    }
    if (action) {
        int e = action_errno(action);
        trace_event('R', fd, fi->target, (long)count, -1, e, action, off);
        errno = e;
        return -1;
    }
    size_t want = count;
    int chunked = 0;
    if (fi->pipe && count > 0) {
        long c = -1;
        if (chunk_idx < nchunks)
            c = chunks[chunk_idx];
        else if (chunk_cycle && nchunks > 0)
            c = chunks[chunk_idx % nchunks];
        chunk_idx++;
        if (c >= 1 && (size_t)c < want) {
            want = (size_t)c;
            chunked = 1;
        }
    }
    long r = RAW3(SYS_read, fd, buf, want);
    if (r < 0) {
        trace_event('R', fd, fi->target, (long)count, -1, (int)-r, 0, off);
        errno = (int)-r;
        return -1;
    }
    fi->off += r;
    trace_event('R', fd, fi->target, (long)count, r, 0, chunked ? 100 : 0, off);
    return r;
}

/* ---------- write / writev ---------- */
static ssize_t do_write(int fd, const struct iovec *iov, int iovcnt, const void *buf, size_t count) {
    struct fdinfo *fi = &fds[fd];
    long arg = 0;
    long off = fi->off;
    int action = 0;
    if (fi->sticky_epipe) {
        trace_event('W', fd, fi->target, (long)count, -1, EPIPE, 3, off);
        raise_sigpipe();
        errno = EPIPE;
        return -1;
    }
    if (fi->pending_enospc) {
        /* the disk filled during the previous (short) write; it stays full */
        trace_event('W', fd, fi->target, (long)count, -1, ENOSPC, 2, off);
        errno = ENOSPC;
        return -1;
    }
    action = decide('W', fi->target, &arg);
    if (action == 8) {
        trace_event('W', fd, fi->target, (long)count, -1, 0, action, off);
        die_now();
    }
    if (action == 3) {
        fi->sticky_epipe = 1;
        trace_event('W', fd, fi->target, (long)count, -1, EPIPE, 3, off);
        raise_sigpipe();
        errno = EPIPE;
        return -1;
    }
    if (action == 2) fi->pending_enospc = 1;
    if (action && action != 7 && action != 9) {
        int e = action_errno(action);
        trace_event('W', fd, fi->target, (long)count, -1, e, action, off);
        errno = e;
        return -1;
    }
    size_t want = count;
    if ((action == 7 || action == 9) && count > 1) {
        long k = arg;
        if (k < 1) k = 1;
        if ((size_t)k >= count) k = (long)count - 1;
        want = (size_t)k;
        if (action == 7) fi->pending_enospc = 1;
    } else if (action == 7) {
        /* nothing can be written short of 1 byte: behave as ENOSPC */
        fi->pending_enospc = 1;
        trace_event('W', fd, fi->target, (long)count, -1, ENOSPC, 2, off);
        errno = ENOSPC;
        return -1;
    } else if (action == 9)
        action = 0;
    long r;
    if (iov) {
        /* write the first `want` bytes of the vector */
        size_t left = want;
        long total = 0;
        r = 0;
        for (int i = 0; i < iovcnt && left > 0; i++) {
            size_t l = iov[i].iov_len < left ? iov[i].iov_len : left;
            size_t done = 0;
            while (done < l) {
                long w = RAW3(SYS_write, fd, (const char *)iov[i].iov_base + done, l - done);
                if (w < 0) {
                    r = w;
                    break;
                }
                done += (size_t)w;
            }
            if (r < 0) break;
            total += (long)l;
            left -= l;
        }
        if (r >= 0) r = total;
    } else {
        r = RAW3(SYS_write, fd, buf, want);
    }
    if (r < 0) {
        trace_event('W', fd, fi->target, (long)count, -1, (int)-r, 0, off);
        errno = (int)-r;
        return -1;
    }
    fi->off += r;
    trace_event('W', fd, fi->target, (long)count, r, 0, action, off);
    return r;
}

ssize_t write(int fd, const void *buf, size_t count) {
    if (!active || fd < 0 || fd >= MAXFD || !fds[fd].watched) {
        long r = RAW3(SYS_write, fd, buf, count);
        if (r < 0) {
            errno = (int)-r;
            return -1;
        }
        return r;
    }
    return do_write(fd, 0, 0, buf, count);
}

ssize_t writev(int fd, const struct iovec *iov, int iovcnt) {
    if (!active || fd < 0 || fd >= MAXFD || !fds[fd].watched) {
        long r = RAW3(SYS_writev, fd, iov, iovcnt);
        if (r < 0) {
            errno = (int)-r;
            return -1;
        }
        return r;
    }
    size_t total = 0;
    for (int i = 0; i < iovcnt; i++) total += iov[i].iov_len;
    return do_write(fd, iov, iovcnt, 0, total);
}

/* ---------- open ---------- */
static int lookup_path(const char *path, int *pipe) {
    for (int i = 0; i < npaths; i++)
        if (!strcmp(paths[i].path, path)) {
            *pipe = paths[i].pipe;
            return paths[i].id;
        }
    if (rootlen && !strncmp(path, root, rootlen)) {
        *pipe = 0;
        return 99;
    }
    return -100;
}

static int do_open(const char *path, int flags, mode_t mode) {
    int pipe = 0;
    int target = active ? lookup_path(path, &pipe) : -100;
    if (target == -100) {
        long r = raw6(SYS_openat, AT_FDCWD, (long)path, flags, mode, 0, 0);
        if (r < 0) {
            errno = (int)-r;
            return -1;
        }
        if (r < MAXFD) memset(&fds[r], 0, sizeof(fds[r]));
        return (int)r;
    }
    long arg = 0;
    int action = decide('O', target, &arg);
    if (action == 8) {
        trace_event('O', -1, target, flags, -1, 0, action, 0);
        die_now();
    }
    if (action) {
        int e = action_errno(action);
        trace_event('O', -1, target, flags, -1, e, action, 0);
        errno = e;
        return -1;
    }
    long r = raw6(SYS_openat, AT_FDCWD, (long)path, flags, mode, 0, 0);
    if (r < 0) {
        trace_event('O', -1, target, flags, -1, (int)-r, 0, 0);
        errno = (int)-r;
        return -1;
    }
    if (r < MAXFD) {
        memset(&fds[r], 0, sizeof(fds[r]));
        fds[r].watched = 1;
        fds[r].target = target;
        fds[r].pipe = pipe;
    }
    trace_event('O', (int)r, target, flags, r, 0, 0, 0);
    return (int)r;
}

int open(const char *path, int flags, ...) {
    mode_t mode = 0;
    if (flags & (O_CREAT | O_TMPFILE)) {
        va_list ap;
        va_start(ap, flags);
        mode = va_arg(ap, mode_t);
        va_end(ap);
    }
    return do_open(path, flags, mode);
}
int open64(const char *path, int flags, ...) {
    mode_t mode = 0;
    if (flags & (O_CREAT | O_TMPFILE)) {
        va_list ap;
        va_start(ap, flags);
        mode = va_arg(ap, mode_t);
        va_end(ap);
    }
    return do_open(path, flags | O_LARGEFILE, mode);
}

int close(int fd) {
    if (active && fd >= 0 && fd < MAXFD && fds[fd].watched && fd > 2) {
        trace_event('X', fd, fds[fd].target, 0, 0, 0, 0, fds[fd].off);
        memset(&fds[fd], 0, sizeof(fds[fd]));
    }
    if (fd == trace_fd) { /* never let the program close the trace */
        return 0;
    }
    long r = RAW3(SYS_close, fd, 0, 0);
    if (r < 0) {
        errno = (int)-r;
        return -1;
    }
    return 0;
}

/* ---------- pipe-like descriptors look like pipes ---------- */
#include <sys/stat.h>
#include <linux/stat.h>

static int is_pipe_fd(int fd) { return active && fd >= 0 && fd < MAXFD && fds[fd].watched && fds[fd].pipe; }

int fstat64(int fd, struct stat64 *st) {
    long r = RAW3(SYS_fstat, fd, st, 0);
    if (r < 0) {
        errno = (int)-r;
        return -1;
    }
    if (is_pipe_fd(fd)) {
        st->st_mode = (st->st_mode & ~S_IFMT) | S_IFIFO;
        st->st_size = 0;
        st->st_blocks = 0;
    }
    return 0;
}
int fstat(int fd, struct stat *st) { return fstat64(fd, (struct stat64 *)st); }

int statx(int dirfd, const char *path, int flags, unsigned int mask, struct statx *stx) {
    long r = raw6(SYS_statx, dirfd, (long)path, flags, mask, (long)stx, 0);
    if (r < 0) {
        errno = (int)-r;
        return -1;
    }
    if (is_pipe_fd(dirfd) && path && path[0] == 0) {
        stx->stx_mode = (stx->stx_mode & ~S_IFMT) | S_IFIFO;
        stx->stx_size = 0;
        stx->stx_blocks = 0;
    }
    return 0;
}

off64_t lseek64(int fd, off64_t off, int whence) {
    if (is_pipe_fd(fd)) {
        errno = ESPIPE;
        return -1;
    }
    long r = RAW3(SYS_lseek, fd, off, whence);
    if (r < 0) {
        errno = (int)-r;
        return -1;
    }
    return r;
}
off_t lseek(int fd, off_t off, int whence) { return (off_t)lseek64(fd, off, whence); }

/* ---------- randomness ---------- */
static uint64_t next_rand(void) {
    uint64_t z = (rseed + (++rctr) * 0x9e3779b97f4a7c15ULL);
    z = (z ^ (z >> 30)) * 0xbf58476d1ce4e5b9ULL;
    z = (z ^ (z >> 27)) * 0x94d049bb133111ebULL;
    return z ^ (z >> 31);
}
static ssize_t fill_random(void *buf, size_t len) {
    unsigned char *p = buf;
    size_t i = 0;
    while (i < len) {
        uint64_t v = next_rand();
        for (int k = 0; k < 8 && i < len; k++, i++) p[i] = (unsigned char)(v >> (8 * k));
    }
    return (ssize_t)len;
}
ssize_t getrandom(void *buf, size_t len, unsigned int flags) {
    (void)flags;
    if (!active) {
        long r = RAW3(SYS_getrandom, buf, len, flags);
        if (r < 0) {
            errno = (int)-r;
            return -1;
        }
        return r;
    }
    return fill_random(buf, len);
}
pid_t gettid(void) {
    if (active) return 4242;
    return (pid_t)RAW3(SYS_gettid, 0, 0, 0);
}

int getentropy(void *buf, size_t len) {
    if (!active) {
        long r = RAW3(SYS_getrandom, buf, len, 0);
        if (r < 0) {
            errno = (int)-r;
            return -1;
        }
        return 0;
    }
    fill_random(buf, len);
    return 0;
}

long syscall(long n, ...) {
    va_list ap;
    va_start(ap, n);
    long a = va_arg(ap, long), b = va_arg(ap, long), c = va_arg(ap, long);
    long d = va_arg(ap, long), e = va_arg(ap, long), f = va_arg(ap, long);
    va_end(ap);
    if (active && n == SYS_getrandom) return fill_random((void *)a, (size_t)b);
    if (active && n == SYS_gettid) return 4242; /* the thread id appears in panic messages */
    if (active && n == SYS_statx) return statx((int)a, (const char *)b, (int)c, (unsigned int)d, (struct statx *)e);
    long r = raw6(n, a, b, c, d, e, f);
    if (r < 0 && r > -4096) {
        errno = (int)-r;
        return -1;
    }
    return r;
}

/* ---------- time ---------- */
int clock_gettime(clockid_t clk, struct timespec *ts) {
    if (!active) {
        long r = RAW3(SYS_clock_gettime, clk, ts, 0);
        if (r < 0) {
            errno = (int)-r;
            return -1;
        }
        return 0;
    }
    if (clk == CLOCK_REALTIME) {
        long arg = 0;
        int action = decide('C', -1, &arg);
        opidx++;
        if (trace_fd >= 0) {
            char buf[48], *p = buf;
            *p++ = 'C';
            *p++ = ' ';
            p = put_long(p, opidx);
            *p++ = '\n';
            RAW3(SYS_write, trace_fd, buf, p - buf);
        }
        if (action == 8) die_now();
        vclock_sec += 1;
    }
    ts->tv_sec = vclock_sec;
    ts->tv_nsec = vclock_nsec;
    return 0;
}

int clock_nanosleep(clockid_t clk, int flags, const struct timespec *req, struct timespec *rem) {
    if (!active) {
        long r = raw6(SYS_clock_nanosleep, clk, flags, (long)req, (long)rem, 0, 0);
        return r < 0 ? (int)-r : 0;
    }
    if (req) {
        if (flags & TIMER_ABSTIME) {
            if (req->tv_sec > vclock_sec) vclock_sec = req->tv_sec;
        } else {
            vclock_sec += req->tv_sec;
            vclock_nsec += req->tv_nsec;
            if (vclock_nsec >= 1000000000L) {
                vclock_nsec -= 1000000000L;
                vclock_sec++;
            }
        }
        if (trace_fd >= 0) {
            char buf[64], *p = buf;
            *p++ = 'S';
            *p++ = ' ';
            p = put_long(p, req->tv_sec);
            *p++ = '\n';
            RAW3(SYS_write, trace_fd, buf, p - buf);
        }
    }
    (void)rem;
    return 0;
}
int nanosleep(const struct timespec *req, struct timespec *rem) {
    return clock_nanosleep(CLOCK_MONOTONIC, 0, req, rem) ? -1 : 0;
}
